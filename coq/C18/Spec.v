(* C18 specification, written from the property statement: which entry of the
   header each strategy designates, over the FLATTENED ENTRY LIST, independent of
   how clientip.go iterates.  What text of an entry is an address is decided by
   the oracle [parse] (a Section variable); which addresses are trusted by
   [trusted]. *)
From FoxBase Require Import Bytes.
From FoxC18 Require Import Cidr Types GoStd.

(* the comma-separated (resp. semicolon-separated) items of a string *)
Definition split_on (sep : ascii) (s : bytes) : list bytes :=
  fold_right (fun ch acc =>
                if Ascii.eqb ch sep then [] :: acc
                else match acc with h :: t => (ch :: h) :: t | [] => [[ch]] end)
             [[]] s.

(* a value surrounded by one pair of double quotes loses them *)
Definition spec_unquote (s : bytes) : bytes :=
  match s with
  | q :: (_ :: _) as r =>
    if Ascii.eqb q """" && Ascii.eqb (last r q) """" then removelast r else s
  | _ => s
  end.

(* RFC 7239 element: the value of the first "for" parameter among the first four
   ';'-separated parameters *)
Definition spec_for_value (item : bytes) : option bytes :=
  let kvs := map (fun p => cut "=" (trim_space p)) (firstn 4 (split_on ";" item)) in
  match find (fun kv => match kv with Some (k, _) => is_for k | None => false end) kvs with
  | Some (Some (_, v)) => Some v
  | _ => None
  end.

(* the address text of one list item; None = the item carries no address text *)
Definition spec_item_text (fwd : bool) (item : bytes) : option bytes :=
  if fwd then
    match spec_for_value (trim_space item) with
    | Some v => match spec_unquote (trim_space v) with [] => None | t => Some t end
    | None => None
    end
  else Some (trim_space item).

(* what an attacker in front of the trusted proxies can do to a list header: add
   header lines before the genuine ones, and prepend text to the first genuine
   line, up to a comma *)
Definition attack_lines (extra : list bytes) (text : option bytes) (lines : list bytes) : list bytes :=
  extra ++ match text, lines with
           | Some t, l0 :: rest => (t ++ ","%char :: l0) :: rest
           | Some t, [] => [t]
           | None, _ => lines
           end.

(* positions and lengths are N: resolver parameters range over all of uint *)
Fixpoint firstnN {X : Type} (n : N) (l : list X) : list X :=
  match l with
  | [] => []
  | x :: r => if N.ltb 0 n then x :: firstnN (N.pred n) r else []
  end.

Fixpoint nthN {X : Type} (l : list X) (n : N) : option X :=
  match l with
  | [] => None
  | x :: r => if N.eqb n 0 then Some x else nthN r (N.pred n)
  end.

Fixpoint lengthN {X : Type} (l : list X) : N :=
  match l with [] => 0%N | _ :: r => N.succ (lengthN r) end.

Section Spec.
  Variable A : Type.
  Variable parse : bytes -> pres A.
  Variable trusted : A -> bool.

  Definition spec_item (fwd : bool) (item : bytes) : option A :=
    match spec_item_text fwd item with
    | Some t => pres_opt (parse t)
    | None => None
    end.

  (* the flattened entry list of a header: every item of every line, in order;
     None marks an entry that is not a valid address *)
  Definition spec_entries (fwd : bool) (lines : list bytes) : list (option A) :=
    map (spec_item fwd) (flat_map (split_on ",") lines).

  Definition untrusted_addr (e : option A) : bool :=
    match e with Some a => negb (trusted a) | None => false end.
  Definition trusted_addr (e : option A) : bool :=
    match e with Some a => trusted a | None => false end.

  (* rightmost-trusted-count: the n-th entry from the right *)
  Definition spec_trusted_count (es : list (option A)) (n : N) : result A :=
    if N.eqb n 0 then Err [ECountFewer]
    else match nthN (rev es) (N.pred n) with
         | Some (Some a) => Ok a
         | Some None => Err [ECountInvalid]
         | None => Err [ECountFewer]
         end.

  (* rightmost-non-private: the rightmost valid address outside the trusted ranges *)
  Definition spec_rightmost_non_private (es : list (option A)) : result A :=
    match find untrusted_addr (rev es) with
    | Some (Some a) => Ok a
    | _ => Err [ERightNonPrivate]
    end.

  (* rightmost-trusted-range: the first entry from the right that is not a trusted
     address; an error if it is not an address at all *)
  Definition spec_trusted_range (es : list (option A)) : result A :=
    match find (fun e => negb (trusted_addr e)) (rev es) with
    | Some (Some a) => Ok a
    | _ => Err [ERangeNoValid]
    end.

  (* leftmost-non-private: the first valid non-excluded address among the first limit entries *)
  Definition spec_leftmost (es : list (option A)) (limit : N) : result A :=
    match find untrusted_addr (firstnN limit es) with
    | Some (Some a) => Ok a
    | _ => Err [ELeftmost]
    end.

  (* single-header: the last header instance *)
  Definition spec_single (lines : list bytes) : result A :=
    match rev lines with
    | [] => Err [ESingleNotFound]
    | l :: _ =>
      match l with
      | [] => Err [ESingleNotFound]
      | _ => match parse l with
             | POk a => Ok a
             | PInvalid => Err [EInvalidIP]
             | PUnspec => Err [EUnspecifiedIP]
             | PPanic => Panic
             end
      end
    end.

  Definition spec_remote (remote : bytes) : result A :=
    match parse remote with
    | POk a => Ok a
    | PInvalid => Err [ERemoteInvalid]
    | PUnspec => Err [ERemoteUnspecified]
    | PPanic => Panic
    end.

  (* chain: its first success; an error when there is none - the members' errors
     joined, or, for a chain without members, an error of its own *)
  Fixpoint spec_chain_members (rs : list (result A)) : result A :=
    match rs with
    | [] => Err []
    | Ok a :: _ => Ok a
    | Err e :: rest =>
      match spec_chain_members rest with
      | Err e' => Err (e ++ e')
      | r => r
      end
    | r :: _ => r
    end.
  Definition spec_chain (rs : list (result A)) : result A :=
    match rs with
    | [] => Err [EChainEmpty]
    | _ => spec_chain_members rs
    end.

  (* where the designated entry of a rightmost strategy lies: the strategy is
     decided by the last [k] entries alone *)
  Definition designated_within_count (es : list (option A)) (n : N) : bool :=
    negb (N.eqb n 0) && N.leb n (lengthN es).
  Definition designated_within_non_private (es : list (option A)) : bool :=
    existsb untrusted_addr es.
  Definition designated_within_range (es : list (option A)) : bool :=
    existsb (fun e => negb (trusted_addr e)) es.
End Spec.
