(* Tie A for the client-IP strategies (docs/GenC18.md): the hand-written models of Entries.v / Strategies.v are
   EQUAL to the definitions stratgen regenerates from clientip.go (GenStrat.v) - for every header content, every
   count / limit (N, any value), every range test and every ParseIPAddr oracle, panicking ones included.
   The corollaries restate the main theorems of C18 over the generated definitions. *)
From FoxBase Require Import Bytes.
From Coq Require Import ZArith Lia ZifyBool.
From FoxC18 Require Import Cidr Iana Types GoStd ParseIP Spec Entries Strategies GenRanges Model Corr
  EntriesProofs StrategiesProofs ModelProofs Examples StratSem GenStrat.
Open Scope N_scope.

Lemma fold_stop_ext {E S} (y1 y2 : E -> S -> S * bool) l :
  (forall x st, y1 x st = y2 x st) -> forall st, fold_stop y1 l st = fold_stop y2 l st.
Proof.
  intros H. induction l as [|x r IH]; intros st; [reflexivity|].
  simpl. rewrite H. destruct (y2 x st) as [st' k]. destruct k; [apply IH | reflexivity].
Qed.

Lemma pair_eta_bool {S} (p : S * bool) : (let (a, b) := p in if b then (a, true) else (a, false)) = p.
Proof. destruct p as [a b]. destruct b; reflexivity. Qed.

Lemma go_len_cons_pos {X} (x : X) l : (0 <? go_len (x :: l))%Z = true.
Proof. unfold go_len. apply Z.ltb_lt. simpl List.length. lia. Qed.

(* the guard of a strategy on a non-empty, present header: whatever way it is written, it is decided by lia *)
Ltac guard_true :=
  match goal with
  | |- context [if ?c then _ else _] =>
    replace c with true by (symmetry; unfold go_len, hdr_ok, hdr_values; simpl List.length; lia)
  end.

Lemma go_usub_1 n : go_usub n 1 = if n =? 0 then 2 ^ 64 - 1 else n - 1.
Proof.
  unfold go_usub. destruct (n =? 0) eqn:E.
  - apply N.eqb_eq in E. subst n. reflexivity.
  - apply N.eqb_neq in E. destruct (N.ltb_spec n 1) as [H|H]; [lia | reflexivity].
Qed.

Section Bridge.
  Variable A : Type.
  Variable parse : bytes -> pres A.
  Notation elem := (option (option A)).

  (* ------------------------------------------------------------ the two sequence builders *)

  Lemma item_body_eq (fwd : bool) (S : Type) (y : elem -> S -> S * bool) raw st :
    (let rawListItem := trim_space raw in
     let ipAddr : elem := Some None in
     let ipAddr := if fwd then let ipAddr := parse_forwarded_list_item A parse rawListItem in ipAddr
                   else let ipAddr := go_parse_discard A (parse rawListItem) in ipAddr in
     let (st0, k) := y ipAddr st in if negb k then (st0, false) else (st0, true))
    = y (item_ip A parse fwd raw) st.
  Proof.
    unfold item_ip, go_parse_discard. cbv zeta.
    destruct fwd; [|destruct (parse (trim_space raw))];
      match goal with |- context [y ?e st] => destruct (y e st) as [s k] end; destruct k; reflexivity.
  Qed.

  Theorem gen_ipAddrSeq_eq fwd values (S : Type) (y : elem -> S -> S * bool) st :
    gen_ipAddrSeq A parse fwd values S y st = ip_addr_seq A parse fwd values S y st.
  Proof.
    unfold gen_ipAddrSeq, it_range_list. revert st.
    induction values as [|v rest IH]; intros st; [reflexivity|].
    cbn [fold_stop ip_addr_seq]. unfold it_range_seq at 1.
    rewrite (split_seq_is "," v S), pair_eta_bool.
    rewrite (fold_stop_ext _ (fun raw s => y (item_ip A parse fwd raw) s)) by (intros; apply item_body_eq).
    rewrite <- (split_seq_is "," v S).
    destruct (split_seq "," v S _ st) as [st' k]. destruct k; [rewrite <- IH; symmetry; apply pair_eta_bool | reflexivity].
  Qed.

  Lemma gen_backward_go_eq (fwd : bool) rvalues (S : Type) (y : elem -> S -> S * bool) st :
    it_range_list rvalues
      (fun values_i st =>
         it_range_seq (bsplit_seq "," values_i)
           (fun rawListItem st =>
              let rawListItem := trim_space rawListItem in
              let ipAddr : elem := Some None in
              let ipAddr := if fwd then let ipAddr := parse_forwarded_list_item A parse rawListItem in ipAddr
                            else let ipAddr := go_parse_discard A (parse rawListItem) in ipAddr in
              let (st0, k) := y ipAddr st in if negb k then (st0, false) else (st0, true))
           st (fun st => (st, true)))
      st (fun st => (st, true))
    = backward_go A parse fwd rvalues S y st.
  Proof.
    unfold it_range_list. revert st.
    induction rvalues as [|v rest IH]; intros st; [reflexivity|].
    cbn [fold_stop backward_go]. unfold it_range_seq at 1.
    rewrite (bsplit_seq_is "," v S), pair_eta_bool.
    rewrite (fold_stop_ext _ (fun raw s => y (item_ip A parse fwd raw) s)) by (intros; apply item_body_eq).
    rewrite <- (bsplit_seq_is "," v S).
    destruct (bsplit_seq "," v S _ st) as [st' k]. destruct k; [rewrite <- IH; symmetry; apply pair_eta_bool | reflexivity].
  Qed.

  Theorem gen_backwardIpAddrSeq_eq fwd values (S : Type) (y : elem -> S -> S * bool) st :
    gen_backwardIpAddrSeq A parse fwd values S y st = backward_ip_addr_seq A parse fwd values S y st.
  Proof. unfold gen_backwardIpAddrSeq, it_range_list_backward, backward_ip_addr_seq. apply gen_backward_go_eq. Qed.

  (* the lists the two iterators enumerate, without any hypothesis on parse *)
  Definition raw_items fwd v : list elem := map (item_ip A parse fwd) (split_on "," v).
  Definition raw_entries fwd values : list elem := flat_map (raw_items fwd) values.
  Definition raw_bentries fwd values : list elem := flat_map (fun v => rev (raw_items fwd v)) (rev values).

  Lemma ip_addr_seq_raw fwd values : seq_is (ip_addr_seq A parse fwd values) (raw_entries fwd values).
  Proof.
    intros S y st. unfold raw_entries. revert st.
    induction values as [|v rest IH]; intros st; [reflexivity|].
    cbn [ip_addr_seq flat_map]. rewrite fold_stop_app. unfold raw_items at 1.
    rewrite (split_seq_is "," v S), fold_stop_map.
    destruct (fold_stop _ _ st) as [st' k]. destruct k; [apply IH | reflexivity].
  Qed.

  Lemma backward_go_raw fwd rvalues :
    seq_is (backward_go A parse fwd rvalues) (flat_map (fun v => rev (raw_items fwd v)) rvalues).
  Proof.
    intros S y st. revert st.
    induction rvalues as [|v rest IH]; intros st; [reflexivity|].
    cbn [backward_go flat_map]. rewrite fold_stop_app. unfold raw_items at 1.
    rewrite (bsplit_seq_is "," v S), <- map_rev, fold_stop_map.
    destruct (fold_stop _ _ st) as [st' k]. destruct k; [apply IH | reflexivity].
  Qed.

  Lemma gen_ipAddrSeq_is fwd values : seq_is (gen_ipAddrSeq A parse fwd values) (raw_entries fwd values).
  Proof. intros S y st. rewrite gen_ipAddrSeq_eq. apply ip_addr_seq_raw. Qed.

  Lemma gen_backwardIpAddrSeq_is fwd values :
    seq_is (gen_backwardIpAddrSeq A parse fwd values) (raw_bentries fwd values).
  Proof. intros S y st. rewrite gen_backwardIpAddrSeq_eq. apply backward_go_raw. Qed.

  Lemma backward_ip_addr_seq_raw fwd values :
    seq_is (backward_ip_addr_seq A parse fwd values) (raw_bentries fwd values).
  Proof. apply backward_go_raw. Qed.

  (* ------------------------------------------------------------ range over an iterator = a loop over its list *)

  Fixpoint range_elems {St : Type} (l : list elem) (body : option A -> St -> ctl A St) (st : St)
    (after : St -> result A) : result A :=
    match l with
    | [] => after st
    | None :: _ => Panic
    | Some ip :: r =>
      match body ip st with
      | CNext st' => range_elems r body st' after
      | CBreak st' => after st'
      | CRet res => res
      end
    end.

  Lemma go_range_seq_list {St : Type} (q : seq elem) l (body : option A -> St -> ctl A St) st after :
    seq_is q l -> go_range_seq A q body st after = range_elems l body st after.
  Proof.
    intros H. unfold go_range_seq. rewrite H. clear H. revert st.
    induction l as [|[ip|] r IH]; intros st; cbn [fold_stop range_elems]; [reflexivity| |reflexivity].
    destruct (body ip st) as [st'|st'|res]; [apply IH | reflexivity | reflexivity].
  Qed.

  Lemma scan_elems tr (l : list elem) ft :
    finish A (fold_stop (scan_yield A tr) l None) ft =
    range_elems l
      (fun ip (_ : unit) =>
         if match ip with Some ip_v => negb (tr ip_v) | None => false end
         then CRet (go_ret A ip None) else CNext tt) tt (fun _ => ft).
  Proof.
    induction l as [|[[a|]|] r IH]; cbn [fold_stop range_elems scan_yield]; try reflexivity.
    - destruct (negb (tr a)); [reflexivity | apply IH].
    - apply IH.
  Qed.

  Lemma range_elems_eq tr (l : list elem) ft :
    finish A (fold_stop (range_yield A tr) l None) ft =
    range_elems l
      (fun ip (_ : unit) =>
         if match ip with Some ip_v => tr ip_v | None => false end
         then CNext tt
         else match ip with
              | None => CRet (go_ret A None (Some [ERangeNoValid]))
              | Some ip_v => CRet (go_ret A ip None)
              end) tt (fun _ => ft).
  Proof.
    induction l as [|[[a|]|] r IH]; cbn [fold_stop range_elems range_yield]; try reflexivity.
    destruct (tr a); [apply IH | reflexivity].
  Qed.

  (* ------------------------------------------------------------ the strategies *)

  Theorem gen_lastHeader_eq h : gen_lastHeader h = last_header (hdr_values h).
  Proof.
    unfold gen_lastHeader, last_header. destruct h as [[|x l]|]; try reflexivity.
    cbn [hdr_values hdr_ok negb orb].
    replace ((go_len (x :: l) =? 0)%Z) with false
      by (symmetry; apply Z.eqb_neq; unfold go_len; simpl List.length; lia).
    unfold go_index, go_len.
    replace (Z.of_nat (List.length (x :: l)) - 1)%Z with (Z.of_nat (List.length l)) by (simpl List.length; lia).
    destruct (Z.ltb_spec (Z.of_nat (List.length l)) 0) as [H|H]; [lia|].
    rewrite Nat2Z.id. f_equal. simpl List.length. lia.
  Qed.

  Theorem gen_SingleIPHeader_eq h :
    gen_SingleIPHeader_ClientIP A parse h = single_ip_header A parse (hdr_values h).
  Proof.
    unfold gen_SingleIPHeader_ClientIP, single_ip_header. rewrite gen_lastHeader_eq.
    destruct (last_header (hdr_values h)) as [[|c s]|]; reflexivity.
  Qed.

  Theorem gen_RemoteAddr_eq remote : gen_RemoteAddr_ClientIP A parse remote = remote_addr A parse remote.
  Proof. unfold gen_RemoteAddr_ClientIP, remote_addr. destruct (parse remote); reflexivity. Qed.

  Theorem gen_LeftmostNonPrivate_eq fwd h limit bl :
    gen_LeftmostNonPrivate_ClientIP A parse fwd h limit bl
    = leftmost_non_private A parse fwd (hdr_values h) limit bl.
  Proof.
    unfold gen_LeftmostNonPrivate_ClientIP, leftmost_non_private. destruct h as [[|v l]|]; try reflexivity.
    cbv zeta. guard_true.
    rewrite (go_range_seq_list _ _ _ _ _ (take_is _ _ limit (gen_ipAddrSeq_is fwd (v :: l)))).
    rewrite (take_is _ _ limit (ip_addr_seq_raw fwd (v :: l))).
    symmetry. apply scan_elems.
  Qed.

  Theorem gen_RightmostNonPrivate_eq fwd h tr :
    gen_RightmostNonPrivate_ClientIP A parse fwd h tr = rightmost_non_private A parse fwd (hdr_values h) tr.
  Proof.
    unfold gen_RightmostNonPrivate_ClientIP, rightmost_non_private. destruct h as [[|v l]|]; try reflexivity.
    cbv zeta. guard_true. cbn [hdr_values].
    rewrite (go_range_seq_list _ _ _ _ _ (gen_backwardIpAddrSeq_is fwd (v :: l))).
    rewrite (backward_ip_addr_seq_raw fwd (v :: l)).
    symmetry. apply scan_elems.
  Qed.

  Theorem gen_RightmostTrustedCount_eq fwd h n :
    gen_RightmostTrustedCount_ClientIP A parse fwd h n = rightmost_trusted_count A parse fwd (hdr_values h) n.
  Proof.
    unfold gen_RightmostTrustedCount_ClientIP, rightmost_trusted_count, go_At.
    rewrite gen_backwardIpAddrSeq_eq, go_usub_1. cbv zeta.
    destruct (backward_ip_addr_seq A parse fwd (hdr_values h) _ _ _) as [[res n'] k].
    destruct res as [[[a|]|]|]; reflexivity.
  Qed.

  Theorem gen_RightmostTrustedRange_eq fwd h tr :
    gen_RightmostTrustedRange_ClientIP A parse fwd h tr = rightmost_trusted_range A parse fwd (hdr_values h) tr.
  Proof.
    unfold gen_RightmostTrustedRange_ClientIP, rightmost_trusted_range. destruct tr as [tr|]; [|reflexivity].
    cbn [go_call_ranges].
    rewrite (go_range_seq_list _ _ _ _ _ (gen_backwardIpAddrSeq_is fwd (hdr_values h))).
    rewrite (backward_ip_addr_seq_raw fwd (hdr_values h)).
    symmetry. apply range_elems_eq.
  Qed.

  Lemma gen_chain_go_eq subs : forall errs,
    go_range_list A subs
      (fun sub errs =>
         go_call_resolver A (CRet Panic) sub
           (fun ipAddr err =>
              match err with
              | None => CRet (go_ret A ipAddr None)
              | Some err_v => let errs := go_errors_join errs err in CNext errs
              end)) errs
      (fun errs => match errs with
                   | None => go_ret A None (Some [EChainEmpty])
                   | Some errs_v => go_ret A None errs
                   end)
    = chain_go A subs errs.
  Proof.
    induction subs as [|sub rest IH]; intros errs.
    - destruct errs; reflexivity.
    - cbn [go_range_list chain_go]. unfold go_call_resolver.
      destruct (sub tt) as [a|e| |]; try reflexivity.
      cbv zeta. rewrite IH. destruct errs; reflexivity.
  Qed.

  Theorem gen_Chain_eq subs : gen_Chain_ClientIP A subs = chain A subs.
  Proof. unfold gen_Chain_ClientIP, chain. cbv zeta. apply gen_chain_go_eq. Qed.

  (* ------------------------------------------------------------ the theorems of C18 over the generated definitions *)

  Corollary gen_single_header_last h :
    gen_SingleIPHeader_ClientIP A parse h =
    match rev (hdr_values h) with
    | [] => Err [ESingleNotFound]
    | [] :: _ => Err [ESingleNotFound]
    | l :: _ => match parse l with
                | POk a => Ok a
                | PInvalid => Err [EInvalidIP]
                | PUnspec => Err [EUnspecifiedIP]
                | PPanic => Panic
                end
    end.
  Proof. rewrite gen_SingleIPHeader_eq. apply StrategiesProofs.single_header_last. Qed.

  Corollary gen_chain_first_success pre (s : unit -> result A) post a :
    Forall (fun p : unit -> result A => exists e, p tt = Err e) pre ->
    s tt = Ok a -> gen_Chain_ClientIP A (pre ++ s :: post) = Ok a.
  Proof. rewrite gen_Chain_eq. apply StrategiesProofs.chain_first_success. Qed.

  Corollary gen_chain_all_errors subs :
    Forall (fun p : unit -> result A => exists e, p tt = Err e) subs ->
    exists es, gen_Chain_ClientIP A subs = Err es.
  Proof. rewrite gen_Chain_eq. apply StrategiesProofs.chain_all_errors. Qed.

  Section NoPanic.
    Hypothesis parse_no_panic : forall s, parse s <> PPanic.

    Corollary gen_trusted_count_nth fwd h n : 0 < n ->
      gen_RightmostTrustedCount_ClientIP A parse fwd h n =
      match nth_error (rev (spec_entries A parse fwd (hdr_values h))) (N.to_nat n - 1) with
      | Some (Some a) => Ok a
      | Some None => Err [ECountInvalid]
      | None => Err [ECountFewer]
      end.
    Proof. rewrite gen_RightmostTrustedCount_eq. apply StrategiesProofs.trusted_count_nth, parse_no_panic. Qed.

    Corollary gen_rightmost_non_private_spec fwd h trusted :
      gen_RightmostNonPrivate_ClientIP A parse fwd h trusted =
      match find (untrusted_addr A trusted) (rev (spec_entries A parse fwd (hdr_values h))) with
      | Some (Some a) => Ok a
      | _ => Err [ERightNonPrivate]
      end.
    Proof. rewrite gen_RightmostNonPrivate_eq. apply StrategiesProofs.rightmost_non_private_spec, parse_no_panic. Qed.

    Corollary gen_trusted_range_spec fwd h trusted :
      gen_RightmostTrustedRange_ClientIP A parse fwd h (Some trusted) =
      match find (fun e => negb (trusted_addr A trusted e)) (rev (spec_entries A parse fwd (hdr_values h))) with
      | Some (Some a) => Ok a
      | _ => Err [ERangeNoValid]
      end.
    Proof. rewrite gen_RightmostTrustedRange_eq. apply StrategiesProofs.trusted_range_spec, parse_no_panic. Qed.

    Corollary gen_leftmost_spec fwd h limit blacklisted :
      gen_LeftmostNonPrivate_ClientIP A parse fwd h limit blacklisted =
      match find (untrusted_addr A blacklisted)
                 (firstn (N.to_nat limit) (spec_entries A parse fwd (hdr_values h))) with
      | Some (Some a) => Ok a
      | _ => Err [ELeftmost]
      end.
    Proof. rewrite gen_LeftmostNonPrivate_eq. apply StrategiesProofs.leftmost_first_limit, parse_no_panic. Qed.
  End NoPanic.
End Bridge.

(* ------------------------------------------------------------ the concrete model, assembled from the generated strategies *)

(* [mk] decides how the model's list of header lines is presented as a map entry (absent key or present, possibly
   empty, slice): the result does not depend on it *)
Section GenResolve.
  Variable mk : list bytes -> hdr.
  Hypothesis mk_values : forall l, hdr_values (mk l) = l.

  Fixpoint gen_resolve (rq : request) (r : resolver) : result addr :=
    match r with
    | RRemoteAddr => gen_RemoteAddr_ClientIP addr parse_ip_addr (remote rq)
    | RSingle => gen_SingleIPHeader_ClientIP addr parse_ip_addr (mk (single rq))
    | RLeftmost fwd limit opts =>
      gen_LeftmostNonPrivate_ClientIP addr parse_ip_addr fwd (mk (header_values rq fwd)) limit
        (contained (ranges_of_opts opts))
    | RRightNonPrivate fwd opts =>
      gen_RightmostNonPrivate_ClientIP addr parse_ip_addr fwd (mk (header_values rq fwd))
        (contained (ranges_of_opts opts))
    | RTrustedCount fwd n => gen_RightmostTrustedCount_ClientIP addr parse_ip_addr fwd (mk (header_values rq fwd)) n
    | RTrustedRange fwd ranges =>
      gen_RightmostTrustedRange_ClientIP addr parse_ip_addr fwd (mk (header_values rq fwd))
        (option_map contained ranges)
    | RChain subs => gen_Chain_ClientIP addr (map (fun s _ => gen_resolve rq s) subs)
    end.

  Theorem gen_resolve_eq rq r : gen_resolve rq r = resolve rq r.
  Proof.
    induction r as [| | fwd limit opts | fwd opts | fwd n | fwd ranges | subs IH] using resolver_ind';
      cbn [gen_resolve resolve].
    - apply gen_RemoteAddr_eq.
    - rewrite gen_SingleIPHeader_eq, mk_values. reflexivity.
    - rewrite gen_LeftmostNonPrivate_eq, mk_values. reflexivity.
    - rewrite gen_RightmostNonPrivate_eq, mk_values. reflexivity.
    - rewrite gen_RightmostTrustedCount_eq, mk_values. reflexivity.
    - rewrite gen_RightmostTrustedRange_eq, mk_values. reflexivity.
    - rewrite gen_Chain_eq. f_equal. apply map_ext_in. intros s Hs.
      rewrite Forall_forall in IH. rewrite (IH s Hs). reflexivity.
  Qed.

  Corollary gen_error_never_fallback rq r : wf_resolver r = true ->
    (forall a, gen_resolve rq r = Ok a <-> spec_resolve rq r = Ok a)
    /\ (forall e, spec_resolve rq r = Err e -> gen_resolve rq r = Err e).
  Proof. rewrite gen_resolve_eq. apply ModelProofs.error_never_fallback. Qed.

  Corollary gen_resolve_never_panics rq r : gen_resolve rq r <> Panic.
  Proof. rewrite gen_resolve_eq. apply ModelProofs.resolve_never_panics. Qed.
End GenResolve.

(* ------------------------------------------------------------ non-vacuity *)
Definition ex_h : hdr := Some (xff ex_rq).
Definition collect {E} (q : seq E) : list E := fst (q (list E) (fun e acc => (acc ++ [e], true)) []).
Definition v6ex : addr := ((V6, ip6 [0x2001; 0xdb8; 0; 0; 0; 0; 0; 1]), []).

Lemma ex_gen_seqs :
  collect (gen_ipAddrSeq addr parse_ip_addr false (xff ex_rq))
  = [Some (Some (a4 9 9 9 9)); Some (Some (a4 1 1 1 1)); Some (Some v6ex); Some None; Some (Some (a4 192 168 1 1))]
  /\ collect (gen_backwardIpAddrSeq addr parse_ip_addr false (xff ex_rq))
  = [Some (Some (a4 192 168 1 1)); Some None; Some (Some v6ex); Some (Some (a4 1 1 1 1)); Some (Some (a4 9 9 9 9))]
  /\ collect (gen_backwardIpAddrSeq addr (fun _ => PPanic) false [S2B "a,b"]) = [None; None].
Proof. vm_compute. repeat split. Qed.

Lemma ex_gen_count :
  gen_RightmostTrustedCount_ClientIP addr parse_ip_addr false ex_h 2 = Err [ECountInvalid]
  /\ gen_RightmostTrustedCount_ClientIP addr parse_ip_addr false ex_h 3 = Ok v6ex
  /\ gen_RightmostTrustedCount_ClientIP addr parse_ip_addr false ex_h 6 = Err [ECountFewer]
  /\ gen_RightmostTrustedCount_ClientIP addr parse_ip_addr false ex_h 0 = Err [ECountFewer]
  /\ gen_RightmostTrustedCount_ClientIP addr parse_ip_addr false ex_h 18446744073709551615 = Err [ECountFewer].
Proof. vm_compute. repeat split. Qed.

Lemma ex_gen_scans :
  gen_RightmostNonPrivate_ClientIP addr parse_ip_addr false ex_h (contained privateAndLocalRanges) = Ok (a4 1 1 1 1)
  /\ gen_LeftmostNonPrivate_ClientIP addr parse_ip_addr false ex_h 1 (contained privateAndLocalRanges) = Ok (a4 9 9 9 9)
  /\ gen_LeftmostNonPrivate_ClientIP addr parse_ip_addr false (Some [S2B "10.0.0.1, 10.0.0.2, 8.8.8.8"]) 2
       (contained privateAndLocalRanges) = Err [ELeftmost]
  /\ gen_LeftmostNonPrivate_ClientIP addr parse_ip_addr false None 2 (contained privateAndLocalRanges) = Err [ELeftmost]
  /\ gen_RightmostTrustedRange_ClientIP addr parse_ip_addr false ex_h (Some (contained [(V4, ip4 192 168 0 0, 16)]))
     = Err [ERangeNoValid]
  /\ gen_RightmostTrustedRange_ClientIP addr parse_ip_addr false ex_h None = Err [ERangeResolver].
Proof. vm_compute. repeat split. Qed.

Lemma ex_gen_single_remote :
  gen_SingleIPHeader_ClientIP addr parse_ip_addr (Some (single ex_rq)) = Ok (a4 4 4 4 4)
  /\ gen_SingleIPHeader_ClientIP addr parse_ip_addr (Some [S2B "3.3.3.3"; S2B "nope"]) = Err [EInvalidIP]
  /\ gen_SingleIPHeader_ClientIP addr parse_ip_addr None = Err [ESingleNotFound]
  /\ gen_RemoteAddr_ClientIP addr parse_ip_addr (S2B "1.2.3.4:80") = Ok (a4 1 2 3 4)
  /\ gen_RemoteAddr_ClientIP addr parse_ip_addr (S2B "@") = Err [ERemoteInvalid].
Proof. vm_compute. repeat split. Qed.

Lemma ex_gen_chain :
  gen_Chain_ClientIP addr [(fun _ => Err [ELeftmost]); (fun _ => Ok (a4 4 4 4 4)); (fun _ => Panic)] = Ok (a4 4 4 4 4)
  /\ gen_Chain_ClientIP addr [(fun _ => Err [ELeftmost]); (fun _ => Err [ECountFewer; ERemoteInvalid])]
     = Err [ELeftmost; ECountFewer; ERemoteInvalid]
  /\ gen_Chain_ClientIP addr [] = Err [EChainEmpty]
  /\ gen_resolve Some ex_rq (RChain [RTrustedCount false 2; RTrustedRange true None; RSingle; RRemoteAddr]) = Ok (a4 4 4 4 4).
Proof. vm_compute. repeat split. Qed.
