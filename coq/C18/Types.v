(* Shared result types of the C18 model and specification. *)
From FoxBase Require Import Bytes.
From FoxC18 Require Import Cidr.

(* result of clientip.ParseIPAddr: address, ErrInvalidIpAddress, ErrUnspecifiedIpAddress,
   or a run-time panic (index out of range) *)
Inductive pres (A : Type) := POk (a : A) | PInvalid | PUnspec | PPanic.
Arguments POk {A} a. Arguments PInvalid {A}. Arguments PUnspec {A}. Arguments PPanic {A}.

(* error kinds, as projected by the harness (errors.Is on the sentinel + message) *)
Inductive errk :=
| EInvalidIP | EUnspecifiedIP            (* ParseIPAddr errors returned unwrapped by SingleIPHeader *)
| ERemoteInvalid | ERemoteUnspecified    (* RemoteAddr: ErrRemoteAddress wrapping the above *)
| ESingleNotFound                        (* ErrSingleIPHeader: header not found *)
| ELeftmost                              (* ErrLeftmostNonPrivate *)
| ERightNonPrivate                       (* ErrRightmostNonPrivate *)
| ECountFewer | ECountInvalid            (* ErrRightmostTrustedCount: fewer IPs than expected / invalid IP *)
| ERangeResolver | ERangeNoValid         (* ErrRightmostTrustedRange: range resolver failed / no valid IP *)
| EChainEmpty                            (* ErrChain: no resolver configured *)
| ENoResolver                            (* fox.ErrNoClientIPResolver, from Context.ClientIP *)
| EOther.                                (* anything else the harness observes; never produced by the model *)

Definition errk_eqb (a b : errk) : bool :=
  match a, b with
  | EInvalidIP, EInvalidIP | EUnspecifiedIP, EUnspecifiedIP | ERemoteInvalid, ERemoteInvalid
  | ERemoteUnspecified, ERemoteUnspecified | ESingleNotFound, ESingleNotFound | ELeftmost, ELeftmost
  | ERightNonPrivate, ERightNonPrivate | ECountFewer, ECountFewer | ECountInvalid, ECountInvalid
  | ERangeResolver, ERangeResolver | ERangeNoValid, ERangeNoValid | EChainEmpty, EChainEmpty | ENoResolver, ENoResolver | EOther, EOther => true
  | _, _ => false
  end.

(* outcome of resolver.ClientIP: (addr, nil) / (nil, err) with the leaf errors of err in
   order (errors.Join flattened) / (nil, nil) / panic.  The model never produces NoResult
   (ModelProofs.resolve_ok_or_err); it exists so that the harness can report it. *)
Inductive result (A : Type) := Ok (a : A) | Err (es : list errk) | NoResult | Panic.
Arguments Ok {A} a. Arguments Err {A} es. Arguments NoResult {A}. Arguments Panic {A}.

(* a concrete address: (family after IP.To4, value), zone *)
Definition addr := (ipaddr * bytes)%type.

Definition addr_eqb (a b : addr) : bool :=
  let '((f1, x1), z1) := a in
  let '((f2, x2), z2) := b in
  fam_eqb f1 f2 && N.eqb x1 x2 && bytes_eqb z1 z2.

Definition result_eqb (a b : result addr) : bool :=
  match a, b with
  | Ok x, Ok y => addr_eqb x y
  | Err e1, Err e2 => list_eqb errk_eqb e1 e2
  | NoResult, NoResult => true
  | Panic, Panic => true
  | _, _ => false
  end.

Definition pres_eqb (a b : pres addr) : bool :=
  match a, b with
  | POk x, POk y => addr_eqb x y
  | PInvalid, PInvalid | PUnspec, PUnspec | PPanic, PPanic => true
  | _, _ => false
  end.

Definition pres_opt {A} (p : pres A) : option A := match p with POk a => Some a | _ => None end.
