(* C18 correspondence: functions evaluated by the case files the harness writes. *)
From FoxBase Require Import Bytes.
From FoxC18 Require Import Cidr Iana Types GoStd ParseIP Spec Entries Strategies GenRanges Model.
Open Scope N_scope.

(* A resolver case: the request WITHOUT attacker material, the resolver, the
   observed result on that request, and a list of attacks on it, each with the
   observed result on the attacked request.  An attack names the header the
   attacker writes to (0 = X-Forwarded-For, 1 = Forwarded, 2 = the single-IP
   header), the extra header lines (placed before the genuine ones) and the text
   prepended to the first genuine line, up to a comma.
   A parse case: ParseIPAddr(s) observed. *)
Definition attack := (N * list bytes * option bytes * result addr)%type.
Inductive case :=
| CResolve (rq : request) (r : resolver) (obs_base : result addr) (attacks : list attack)
| CParse (s : bytes) (obs : pres addr)
(* Context.ClientIP called inside fox: the router-wide resolver (None = not configured), the scope
   (Some ov: a handler of a matched route whose own WithClientIPResolver is ov, None = it has none;
   None: the no-route / no-method / redirect / options handlers), the request, the observed result *)
| CVia (glob : option resolver) (route : option (option resolver)) (rq : request) (obs : result addr).

(* the resolver Context.ClientIP must run: the matched route's own one inside its handlers, the
   router-wide one everywhere else; without any, ErrNoClientIPResolver *)
Definition designated_resolver (glob : option resolver) (route : option (option resolver)) : option resolver :=
  match route with
  | Some (Some r) => Some r
  | _ => glob
  end.

Definition via_expected (run : request -> resolver -> result addr) glob route rq : result addr :=
  match designated_resolver glob route with
  | Some r => run rq r
  | None => Err [ENoResolver]
  end.

Definition attacked (rq : request) (hdr : N) (extra : list bytes) (text : option bytes) : request :=
  if hdr =? 0 then {| xff := attack_lines extra text (xff rq); forwarded := forwarded rq; single := single rq; remote := remote rq |}
  else if hdr =? 1 then {| xff := xff rq; forwarded := attack_lines extra text (forwarded rq); single := single rq; remote := remote rq |}
  else {| xff := xff rq; forwarded := forwarded rq; single := attack_lines extra text (single rq); remote := remote rq |}.

(* ---------------- implementation vs model ---------------- *)
Definition model_agrees (c : case) : bool :=
  match c with
  | CResolve rq r obs_base attacks =>
    result_eqb (resolve rq r) obs_base
    && forallb (fun a : attack => let '(hdr, extra, text, obs) := a in
                                  result_eqb (resolve (attacked rq hdr extra text) r) obs) attacks
  | CParse s obs => pres_eqb (parse_ip_addr s) obs
  | CVia glob route rq obs => result_eqb (via_expected resolve glob route rq) obs
  end.

(* ---------------- implementation vs specification ---------------- *)
Definition optkind_eqb (a b : optkind) : bool :=
  match a, b with OLoopback, OLoopback | OLinkLocal, OLinkLocal | OPrivateNet, OPrivateNet => true | _, _ => false end.

(* the ranges an option list selects, as a predicate: the union of the enabled
   families, or the default table when none is enabled *)
Definition spec_opts_trusted (opts : list (optkind * bool)) (a : addr) : bool :=
  let on k := existsb (fun o : optkind * bool => optkind_eqb (fst o) k && snd o) opts in
  if on OLoopback || on OLinkLocal || on OPrivateNet then
    (on OLoopback && in_ranges loopbackRanges (fst a))
    || (on OLinkLocal && in_ranges linkLocalRanges (fst a))
    || (on OPrivateNet && in_ranges privateRange (fst a))
  else in_ranges privateAndLocalRanges (fst a).

Definition spec_lines (rq : request) (fwd : bool) : list bytes := if fwd then forwarded rq else xff rq.
Definition sentries (rq : request) (fwd : bool) : list (option addr) :=
  spec_entries addr parse_ip_addr fwd (spec_lines rq fwd).

Fixpoint spec_resolve (rq : request) (r : resolver) : result addr :=
  match r with
  | RRemoteAddr => spec_remote addr parse_ip_addr (remote rq)
  | RSingle => spec_single addr parse_ip_addr (single rq)
  | RLeftmost fwd limit opts => spec_leftmost addr (spec_opts_trusted opts) (sentries rq fwd) limit
  | RRightNonPrivate fwd opts => spec_rightmost_non_private addr (spec_opts_trusted opts) (sentries rq fwd)
  | RTrustedCount fwd n => spec_trusted_count addr (sentries rq fwd) n
  | RTrustedRange fwd None => Err [ERangeResolver]
  | RTrustedRange fwd (Some ranges) => spec_trusted_range addr (fun a => in_ranges ranges (fst a)) (sentries rq fwd)
  | RChain subs => spec_chain addr (map (spec_resolve rq) subs)
  end.

(* an address, or an error; errors are compared by class only *)
Definition satisfies (obs spec : result addr) : bool :=
  match obs, spec with
  | Ok a, Ok b => addr_eqb a b
  | Err _, Err _ => true
  | _, _ => false
  end.

(* the designated entry of a rightmost strategy lies in the untouched suffix *)
Definition designated_in_suffix (rq : request) (r : resolver) : option bool :=
  match r with
  | RTrustedCount fwd n => Some (designated_within_count addr (sentries rq fwd) n)
  | RRightNonPrivate fwd opts => Some (designated_within_non_private addr (spec_opts_trusted opts) (sentries rq fwd))
  | RTrustedRange fwd (Some ranges) =>
    Some (designated_within_range addr (fun a => in_ranges ranges (fst a)) (sentries rq fwd))
  | _ => None
  end.

Definition reads (r : resolver) : option N :=
  match r with
  | RTrustedCount fwd _ | RRightNonPrivate fwd _ | RTrustedRange fwd _ | RLeftmost fwd _ _ => Some (if fwd then 1 else 0)
  | _ => None
  end.

(* every address the built-in tables make the resolver trust is not globally routable *)
Definition builtin_trust_audit (rq : request) (r : resolver) : bool :=
  match r with
  | RLeftmost fwd _ opts | RRightNonPrivate fwd opts =>
    forallb (fun e => match e with
                      | Some a => implb (spec_opts_trusted opts a) (special_purposeb (fst a))
                      | None => true
                      end) (sentries rq fwd)
  | _ => true
  end.

Definition base_ok (rq : request) (r : resolver) (obs_base : result addr) : bool :=
  satisfies obs_base (spec_resolve rq r) && builtin_trust_audit rq r.

Definition attack_ok (rq : request) (r : resolver) (obs_base : result addr) (a : attack) : bool :=
  let '(hdr, extra, text, obs) := a in
  let rqa := attacked rq hdr extra text in
  satisfies obs (spec_resolve rqa r)
  && match designated_in_suffix rq r, reads r with
     | Some true, Some h => if h =? hdr then result_eqb obs obs_base else true
     | _, _ => true
     end
  && builtin_trust_audit rqa r.

Definition spec_ok (c : case) : bool :=
  match c with
  | CResolve rq r obs_base attacks => base_ok rq r obs_base && forallb (attack_ok rq r obs_base) attacks
  | CParse s obs =>
    (* no independent specification of address syntax: the unverified helper is the oracle *)
    pres_eqb (parse_ip_addr s) obs
  | CVia glob route rq obs =>
    satisfies obs (via_expected spec_resolve glob route rq)
    && match designated_resolver glob route with Some r => builtin_trust_audit rq r | None => true end
  end.

Definition mismatches (cs : list case) : list nat := true_idx (map (fun c => negb (model_agrees c)) cs).
Definition spec_violations (cs : list case) : list nat := true_idx (map (fun c => negb (spec_ok c)) cs).
Definition fuel_outs (cs : list case) : list nat := [].   (* the model uses no fuel *)
