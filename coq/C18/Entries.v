(* Model of the lazy header iteration of clientip.go:473-583 and of
   internal/iterutil (Take, At, SplitStringSeq, BackwardSplitStringSeq).

   A Go push iterator  func(yield func(E) bool)  is a function that threads the
   consumer's state through the calls of yield; yield returns the new state and
   whether to continue, the iterator returns the final state and whether it ran
   to completion (false = the consumer stopped it, which must propagate outwards
   exactly as `if !yield(x) { return }` does). *)
From FoxBase Require Import Bytes.
From FoxC18 Require Import Cidr Types GoStd ParseIP GenRanges.
Open Scope N_scope.

Definition seq (E : Type) : Type := forall S : Type, (E -> S -> S * bool) -> S -> S * bool.

(* what running an iterator over the elements of a list means *)
Fixpoint fold_stop {E S : Type} (y : E -> S -> S * bool) (l : list E) (st : S) : S * bool :=
  match l with
  | [] => (st, true)
  | x :: r => let (st', k) := y x st in if k then fold_stop y r st' else (st', false)
  end.

Definition seq_is {E : Type} (q : seq E) (l : list E) : Prop :=
  forall (S : Type) (y : E -> S -> S * bool) (st : S), q S y st = fold_stop y l st.

(* iterutil.splitStringSeq(s, sep) for a one-byte separator: Index + yield(s[:i]) + s = s[i+1:],
   then the final yield(s).  [cur] holds the bytes scanned since the last separator, reversed. *)
Fixpoint split_go (sep : ascii) (cur : bytes) (s : bytes) (S : Type) (y : bytes -> S -> S * bool) (st : S)
  : S * bool :=
  match s with
  | [] => y (rev cur) st
  | c :: r =>
    if Ascii.eqb c sep then
      let (st', k) := y (rev cur) st in
      if k then split_go sep [] r S y st' else (st', false)
    else split_go sep (c :: cur) r S y st
  end.
Definition split_seq (sep : ascii) (s : bytes) : seq bytes := split_go sep [] s.

(* iterutil.backwardSplitSeq: LastIndex + yield(s[i+1:]) + s = s[:i]; scans from the right *)
Fixpoint bsplit_go (sep : ascii) (cur : bytes) (rs : bytes) (S : Type) (y : bytes -> S -> S * bool) (st : S)
  : S * bool :=
  match rs with
  | [] => y cur st
  | c :: r =>
    if Ascii.eqb c sep then
      let (st', k) := y cur st in
      if k then bsplit_go sep [] r S y st' else (st', false)
    else bsplit_go sep (c :: cur) r S y st
  end.
Definition bsplit_seq (sep : ascii) (s : bytes) : seq bytes := bsplit_go sep [] (rev s).

(* iterutil.Take: state = (consumer state, count, consumer stopped) *)
Definition take {E : Type} (q : seq E) (count : N) : seq E :=
  fun S y st =>
    let '((st', _, stopped), _) :=
      q (S * N * bool)%type
        (fun e '(s, cnt, _) =>
           if 0 <? cnt then
             let (s', k) := y e s in
             if k then ((s', cnt - 1, false), true) else ((s', cnt, true), false)
           else ((s, cnt, false), false))
        (st, count, false) in
    (st', negb stopped).

(* iterutil.At (n is unsigned: the n < 0 panic is unreachable) *)
Definition at_ {E : Type} (q : seq E) (n : N) : option E :=
  let '((res, _), _) :=
    q (option E * N)%type
      (fun v '(res, n) => if 0 <? n then ((res, n - 1), true) else ((Some v, n), false))
      (None, n) in
  res.

(* the body of the loop over the ';'-separated parameters in parseForwardedListItem:
   state = forPart; `continue` = (state, true), `break` = (state, false) *)
Definition for_yield (fp forPart : bytes) : bytes * bool :=
  let fp := trim_space fp in
  match cut "=" fp with
  | None => (forPart, true)                                    (* too few equal signs: continue *)
  | Some (k, v) => if is_for k then (v, false) else (forPart, true)
  end.

Section Items.
  Variable A : Type.
  Variable parse : bytes -> pres A.

  (* parseForwardedListItem; outer None = panic *)
  Definition parse_forwarded_list_item (fwd : bytes) : option (option A) :=
    let '(forPart, _) :=
      take (split_seq ";" fwd) forwarded_max_parts bytes for_yield [] in   (* the limit is regenerated from the source *)
    let forPart := trim_space forPart in
    match trim_matched_ends forPart (S2B """") with
    | None => None
    | Some forPart =>
      match forPart with
      | [] => Some None
      | _ => match parse forPart with
             | PPanic => None
             | p => Some (pres_opt p)
             end
      end
    end.

  (* the loop body shared by ipAddrSeq and backwardIpAddrSeq; outer None = panic *)
  Definition item_ip (fwd : bool) (raw : bytes) : option (option A) :=
    let raw := trim_space raw in
    if fwd then parse_forwarded_list_item raw
    else match parse raw with
         | PPanic => None
         | p => Some (pres_opt p)
         end.

  (* ipAddrSeq(values, headerName) *)
  Fixpoint ip_addr_seq (fwd : bool) (values : list bytes) : seq (option (option A)) :=
    fun S y st =>
      match values with
      | [] => (st, true)
      | v :: rest =>
        let (st', k) := split_seq "," v S (fun raw s => y (item_ip fwd raw) s) st in
        if k then ip_addr_seq fwd rest S y st' else (st', false)
      end.

  (* backwardIpAddrSeq(values, headerName): i from len(values)-1 down to 0 *)
  Fixpoint backward_go (fwd : bool) (rvalues : list bytes) : seq (option (option A)) :=
    fun S y st =>
      match rvalues with
      | [] => (st, true)
      | v :: rest =>
        let (st', k) := bsplit_seq "," v S (fun raw s => y (item_ip fwd raw) s) st in
        if k then backward_go fwd rest S y st' else (st', false)
      end.
  Definition backward_ip_addr_seq (fwd : bool) (values : list bytes) : seq (option (option A)) :=
    backward_go fwd (rev values).
End Items.
