(* Proofs about the concrete model (Model.v): refinement of the specification
   function used by the correspondence files (Corr.spec_resolve), panic freedom,
   and spoof resistance of the rightmost strategies. *)
From FoxBase Require Import Bytes.
From FoxC18 Require Import Cidr Iana Types GoStd ParseIP Spec Entries Strategies GenRanges Model Corr
  EntriesProofs StrategiesProofs.
From Coq Require Import Lia.
Open Scope N_scope.

(* ------------------------------------------------------------------ induction on resolvers *)
Section ResolverInd.
  Variable P : resolver -> Prop.
  Hypothesis Hremote : P RRemoteAddr.
  Hypothesis Hsingle : P RSingle.
  Hypothesis Hleft : forall fwd limit opts, P (RLeftmost fwd limit opts).
  Hypothesis Hrnp : forall fwd opts, P (RRightNonPrivate fwd opts).
  Hypothesis Hcount : forall fwd n, P (RTrustedCount fwd n).
  Hypothesis Hrange : forall fwd ranges, P (RTrustedRange fwd ranges).
  Hypothesis Hchain : forall subs, Forall P subs -> P (RChain subs).

  Fixpoint resolver_ind' (r : resolver) : P r :=
    match r with
    | RRemoteAddr => Hremote
    | RSingle => Hsingle
    | RLeftmost fwd limit opts => Hleft fwd limit opts
    | RRightNonPrivate fwd opts => Hrnp fwd opts
    | RTrustedCount fwd n => Hcount fwd n
    | RTrustedRange fwd ranges => Hrange fwd ranges
    | RChain subs =>
      Hchain subs ((fix go (l : list resolver) : Forall P l :=
                      match l with
                      | [] => Forall_nil P
                      | x :: t => Forall_cons x (resolver_ind' x) (go t)
                      end) subs)
    end.
End ResolverInd.

(* ------------------------------------------------------------------ options *)
Lemma find_ext {X} (f g : X -> bool) l : (forall x, f x = g x) -> find f l = find g l.
Proof.
  intros H. induction l as [|x l IH]; [reflexivity|]. simpl. rewrite H, IH. reflexivity.
Qed.

Lemma opt_table_nonempty k : opt_table k <> [].
Proof. destruct k; discriminate. Qed.

Definition opt_ranges (o : optkind * bool) : list cidr := if snd o then opt_table (fst o) else [].

Lemma cfg_nil opts : flat_map opt_ranges opts = [] <-> existsb snd opts = false.
Proof.
  induction opts as [|o opts IH]; simpl; [tauto|].
  split.
  - intros H. apply app_eq_nil in H. destruct H as [Ho Hr]. apply IH in Hr. rewrite Hr.
    unfold opt_ranges in Ho. destruct (snd o); [|reflexivity].
    exfalso. exact (opt_table_nonempty _ Ho).
  - intros H. apply orb_false_iff in H. destruct H as [Ho Hr]. apply IH in Hr. rewrite Hr.
    unfold opt_ranges. rewrite Ho. reflexivity.
Qed.

Definition opt_on (opts : list (optkind * bool)) (k : optkind) : bool :=
  existsb (fun o : optkind * bool => optkind_eqb (fst o) k && snd o) opts.

Lemma any_on opts : existsb snd opts = opt_on opts OLoopback || opt_on opts OLinkLocal || opt_on opts OPrivateNet.
Proof.
  induction opts as [|[k b] opts IH]; [reflexivity|].
  unfold opt_on in *. simpl. rewrite IH. destruct k, b; simpl;
  repeat match goal with |- context [existsb ?f opts] => destruct (existsb f opts) end; reflexivity.
Qed.

Lemma existsb_by_kind (T : optkind -> bool) opts :
  existsb (fun o : optkind * bool => snd o && T (fst o)) opts =
  (opt_on opts OLoopback && T OLoopback) || (opt_on opts OLinkLocal && T OLinkLocal)
  || (opt_on opts OPrivateNet && T OPrivateNet).
Proof.
  induction opts as [|[k b] opts IH]; [reflexivity|].
  unfold opt_on in *. cbn [existsb fst snd]. rewrite IH.
  destruct k, b; cbn [optkind_eqb andb orb];
  repeat match goal with |- context [existsb ?f opts] => destruct (existsb f opts) end;
  destruct (T OLoopback), (T OLinkLocal), (T OPrivateNet); reflexivity.
Qed.

Lemma in_ranges_app r1 r2 x : in_ranges (r1 ++ r2) x = in_ranges r1 x || in_ranges r2 x.
Proof. unfold in_ranges. apply existsb_app. Qed.

Lemma in_opt_ranges o x : in_ranges (opt_ranges o) x = snd o && in_ranges (opt_table (fst o)) x.
Proof. unfold opt_ranges. destruct (snd o); reflexivity. Qed.

Lemma in_cfg opts x :
  in_ranges (flat_map opt_ranges opts) x =
  (opt_on opts OLoopback && in_ranges loopbackRanges x)
  || (opt_on opts OLinkLocal && in_ranges linkLocalRanges x)
  || (opt_on opts OPrivateNet && in_ranges privateRange x).
Proof.
  change loopbackRanges with (opt_table OLoopback).
  change linkLocalRanges with (opt_table OLinkLocal).
  change privateRange with (opt_table OPrivateNet).
  rewrite <- (existsb_by_kind (fun k => in_ranges (opt_table k) x)).
  induction opts as [|o opts IH]; [reflexivity|].
  cbn [flat_map existsb]. rewrite in_ranges_app, in_opt_ranges, IH. reflexivity.
Qed.

Lemma ranges_of_opts_spec opts a : contained (ranges_of_opts opts) a = spec_opts_trusted opts a.
Proof.
  unfold contained, ranges_of_opts, spec_opts_trusted.
  change (fun o : optkind * bool => if snd o then opt_table (fst o) else []) with opt_ranges.
  fold (opt_on opts OLoopback) (opt_on opts OLinkLocal) (opt_on opts OPrivateNet).
  rewrite <- any_on.
  destruct (flat_map opt_ranges opts) as [|c cs] eqn:Hcfg.
  - apply cfg_nil in Hcfg. rewrite Hcfg. reflexivity.
  - assert (Hany : existsb snd opts = true).
    { destruct (existsb snd opts) eqn:He; [reflexivity|]. apply cfg_nil in He. congruence. }
    rewrite Hany, <- Hcfg. apply in_cfg.
Qed.

(* ------------------------------------------------------------------ well-formed configurations *)
(* what the constructors guarantee: NewRightmostTrustedCount refuses 0 *)
Fixpoint wf_resolver (r : resolver) : bool :=
  match r with
  | RTrustedCount _ n => 0 <? n
  | RChain subs => forallb wf_resolver subs
  | _ => true
  end.

Notation P := parse_ip_addr.
Notation NP := parse_ip_addr_no_panic.

Theorem resolve_refines_spec rq r : wf_resolver r = true -> resolve rq r = spec_resolve rq r.
Proof.
  induction r as [| | fwd limit opts | fwd opts | fwd n | fwd ranges | subs IH] using resolver_ind'; intros Hwf.
  - reflexivity.
  - apply (single_header_last addr P).
  - simpl. rewrite (leftmost_spec addr P NP). unfold spec_leftmost, sentries, spec_lines, header_values.
    rewrite (find_ext _ (untrusted_addr addr (spec_opts_trusted opts))); [reflexivity|].
    intros [a|]; simpl; [rewrite ranges_of_opts_spec|]; reflexivity.
  - simpl. rewrite (rightmost_non_private_spec addr P NP).
    unfold spec_rightmost_non_private, sentries, spec_lines, header_values.
    rewrite (find_ext _ (untrusted_addr addr (spec_opts_trusted opts))); [reflexivity|].
    intros [a|]; simpl; [rewrite ranges_of_opts_spec|]; reflexivity.
  - simpl in Hwf. apply N.ltb_lt in Hwf. simpl. apply (trusted_count_spec addr P NP). exact Hwf.
  - destruct ranges as [ranges|]; [|reflexivity]. simpl. apply (trusted_range_spec addr P NP).
  - change (forallb wf_resolver subs = true) in Hwf.
    change (resolve rq (RChain subs)) with (chain addr (map (fun s (_ : unit) => resolve rq s) subs)).
    rewrite chain_spec. rewrite map_map.
    change (spec_resolve rq (RChain subs)) with (spec_chain addr (map (spec_resolve rq) subs)).
    f_equal. apply map_ext_in. intros s Hin.
    rewrite Forall_forall in IH. apply IH; [exact Hin|].
    rewrite forallb_forall in Hwf. apply Hwf. exact Hin.
Qed.

(* every resolver of the model, on every request, returns an address or an error:
   no panic, and never (nil, nil) *)
Theorem resolve_ok_or_err rq r : ok_or_err addr (resolve rq r).
Proof.
  induction r as [| | fwd limit opts | fwd opts | fwd n | fwd ranges | subs IH] using resolver_ind'; simpl.
  - apply (remote_ok_or_err addr P NP).
  - apply (single_ok_or_err addr P NP).
  - apply (leftmost_ok_or_err addr P NP).
  - apply (rightmost_non_private_ok_or_err addr P NP).
  - apply (trusted_count_ok_or_err addr P NP).
  - apply (trusted_range_ok_or_err addr P NP).
  - unfold chain. apply chain_go_ok_or_err. rewrite Forall_forall. intros f Hin.
    apply in_map_iff in Hin. destruct Hin as [s [Hs Hin]]. subst f.
    rewrite Forall_forall in IH. apply IH. exact Hin.
Qed.

Theorem resolve_never_panics rq r : resolve rq r <> Panic.
Proof. intros H. pose proof (resolve_ok_or_err rq r) as Ho. rewrite H in Ho. exact Ho. Qed.

Theorem resolve_result rq r :
  (exists a, resolve rq r = Ok a) \/ (exists e, resolve rq r = Err e).
Proof.
  pose proof (resolve_ok_or_err rq r) as Ho. destruct (resolve rq r) as [a|e| |]; try contradiction; eauto.
Qed.

(* an address is returned only when it is the designated one; a designated error is an error *)
Theorem error_never_fallback rq r :
  wf_resolver r = true ->
  (forall a, resolve rq r = Ok a <-> spec_resolve rq r = Ok a)
  /\ (forall e, spec_resolve rq r = Err e -> resolve rq r = Err e).
Proof.
  intros Hwf. rewrite (resolve_refines_spec rq r Hwf). split; [tauto | auto].
Qed.

(* ------------------------------------------------------------------ spoof resistance *)
Definition rightmost (r : resolver) : bool :=
  match r with RTrustedCount _ _ | RRightNonPrivate _ _ | RTrustedRange _ (Some _) => true | _ => false end.

Lemma header_values_attacked rq (hdr : N) extra text (fwd : bool) :
  hdr = (if fwd then 1 else 0) ->
  header_values (attacked rq hdr extra text) fwd = attack_lines extra text (header_values rq fwd).
Proof. intros ->. destruct fwd; reflexivity. Qed.

Theorem rightmost_prefix_independent rq hdr extra text r :
  rightmost r = true -> reads r = Some hdr -> designated_in_suffix rq r = Some true ->
  resolve (attacked rq hdr extra text) r = resolve rq r.
Proof.
  destruct r as [| | fwd limit opts | fwd opts | fwd n | fwd [ranges|] | subs]; try discriminate;
    intros _ Hreads Hdes; simpl in Hreads; injection Hreads as Hh; symmetry in Hh;
    simpl in Hdes; injection Hdes as Hdes; simpl resolve;
    rewrite (header_values_attacked rq hdr extra text fwd Hh).
  - apply (non_private_prefix_independent_lines addr P NP).
    unfold sentries, spec_lines in Hdes. unfold header_values.
    unfold designated_within_non_private in *. rewrite <- Hdes. clear Hdes.
    induction (spec_entries addr P fwd (if fwd then forwarded rq else xff rq)) as [|e l IHl]; [reflexivity|].
    simpl. rewrite IHl. destruct e as [a|]; simpl; [rewrite ranges_of_opts_spec|]; reflexivity.
  - apply (trusted_count_prefix_independent addr P NP). exact Hdes.
  - apply (trusted_range_prefix_independent addr P NP). exact Hdes.
Qed.

(* non-vacuity: a request and an attack satisfying the hypotheses, with a spoofed
   private/public prefix that changes nothing *)
Example rightmost_prefix_independent_example :
  let rq := {| xff := [S2B "5.5.5.5, 10.0.0.1"]; forwarded := []; single := []; remote := S2B "10.0.0.9:1" |} in
  let r := RRightNonPrivate false [] in
  rightmost r = true /\ reads r = Some 0 /\ designated_in_suffix rq r = Some true
  /\ resolve (attacked rq 0 [S2B "6.6.6.6"] (Some (S2B "127.0.0.1, 7.7.7.7"))) r = Ok ((V4, ip4 5 5 5 5), []).
Proof. vm_compute. repeat split. Qed.

(* a chain returns an address or an error - also the empty chain, also with empty chains inside *)
Theorem chain_result rq subs :
  (exists a, resolve rq (RChain subs) = Ok a) \/ (exists e, resolve rq (RChain subs) = Err e).
Proof. apply resolve_result. Qed.
