(* Unverified Gallina mirrors of the Go standard-library functions the clientip
   package calls (go1.24): strings.TrimSpace, strings.EqualFold(_, "for"),
   strings.SplitN(_, "=", 2), net.SplitHostPort, net.ParseIP (netip.ParseAddr),
   IP.To4 / IP.IsUnspecified.  They are external to fox; the harness compares
   them with the real functions on every run (through ParseIPAddr and the
   resolvers). *)
From FoxBase Require Import Bytes.
From FoxC18 Require Import Cidr.
Open Scope N_scope.

Definition code (c : ascii) : N := N_of_ascii c.
Definition is_byte (c : ascii) (n : N) : bool := code c =? n.

(* ---- strings.TrimSpace ---- *)
Definition ascii_space (c : ascii) : bool :=
  let n := code c in ((9 <=? n) && (n <=? 13)) || (n =? 32).

(* UTF-8 encodings of the non-ASCII runes of unicode.White_Space:
   U+0085 U+00A0 | U+1680 U+2000-200A U+2028 U+2029 U+202F U+205F U+3000 *)
Definition space2 (c d : ascii) : bool :=
  is_byte c 0xC2 && (is_byte d 0x85 || is_byte d 0xA0).
Definition space3 (c d e : ascii) : bool :=
  (is_byte c 0xE1 && is_byte d 0x9A && is_byte e 0x80)
  || (is_byte c 0xE2 && is_byte d 0x80 &&
        (((0x80 <=? code e) && (code e <=? 0x8A)) || is_byte e 0xA8 || is_byte e 0xA9 || is_byte e 0xAF))
  || (is_byte c 0xE2 && is_byte d 0x81 && is_byte e 0x9F)
  || (is_byte c 0xE3 && is_byte d 0x80 && is_byte e 0x80).

Fixpoint ltrim (s : bytes) : bytes :=
  match s with
  | [] => []
  | c :: r =>
    if ascii_space c then ltrim r else
    match r with
    | d :: r1 =>
      if space2 c d then ltrim r1 else
      match r1 with
      | e :: r2 => if space3 c d e then ltrim r2 else s
      | [] => s
      end
    | [] => s
    end
  end.

(* the same on the reversed string (DecodeLastRuneInString) *)
Fixpoint ltrim_rev (s : bytes) : bytes :=
  match s with
  | [] => []
  | c :: r =>
    if ascii_space c then ltrim_rev r else
    match r with
    | d :: r1 =>
      if space2 d c then ltrim_rev r1 else
      match r1 with
      | e :: r2 => if space3 e d c then ltrim_rev r2 else s
      | [] => s
      end
    | [] => s
    end
  end.

(* TrimSpace = ASCII fast path, falling back to TrimFunc(unicode.IsSpace); both
   compute: drop leading space runes, then trailing space runes *)
Definition trim_space (s : bytes) : bytes := rev (ltrim_rev (rev (ltrim s))).

(* ---- byte search / slicing ---- *)
Fixpoint index_of (c : ascii) (s : bytes) : option nat :=
  match s with
  | [] => None
  | x :: r => if Ascii.eqb x c then Some O else option_map S (index_of c r)
  end.

Definition last_index_of (c : ascii) (s : bytes) : option nat :=
  match index_of c (rev s) with
  | Some k => Some (List.length s - 1 - k)%nat
  | None => None
  end.

Definition contains (c : ascii) (s : bytes) : bool :=
  match index_of c s with Some _ => true | None => false end.

(* s[lo:hi]; None = slice bounds out of range (panic) *)
Definition slice (lo hi : nat) (s : bytes) : option bytes :=
  if (lo <=? hi)%nat && (hi <=? List.length s)%nat then Some (firstn (hi - lo) (skipn lo s)) else None.

(* strings.SplitN(s, "=", 2): None when there is no '=' *)
Definition cut (c : ascii) (s : bytes) : option (bytes * bytes) :=
  match index_of c s with
  | Some i => Some (firstn i s, skipn (S i) s)
  | None => None
  end.

(* ---- strings.EqualFold(k, "for"): f, o, r have no non-ASCII simple-fold partners ---- *)
Definition lower (c : ascii) : N :=
  let n := code c in if (65 <=? n) && (n <=? 90) then n + 32 else n.
Definition is_for (k : bytes) : bool :=
  match k with
  | [a; b; c] => (lower a =? 102) && (lower b =? 111) && (lower c =? 114)
  | _ => false
  end.

(* ---- net.SplitHostPort: the host, or None on any error ---- *)
Definition net_split_host (hp : bytes) : option bytes :=
  match last_index_of ":" hp with
  | None => None                                             (* missing port *)
  | Some i =>
    match hp with
    | [] => None
    | c0 :: _ =>
      if Ascii.eqb c0 "[" then
        match index_of "]" hp with
        | None => None                                       (* missing ']' *)
        | Some e =>
          if (S e =? List.length hp)%nat then None                (* missing port *)
          else if (S e =? i)%nat then
            let host := firstn (e - 1) (skipn 1 hp) in
            if contains "[" (skipn 1 hp) then None
            else if contains "]" (skipn (S e) hp) then None
            else Some host
          else None                                          (* too many colons / missing port *)
        end
      else
        let host := firstn i hp in
        if contains ":" host then None                       (* too many colons *)
        else if contains "[" hp then None
        else if contains "]" hp then None
        else Some host
    end
  end.

(* ---- netip.parseIPv4Fields ---- *)
Definition digit (c : ascii) : option N :=
  let n := code c in if (48 <=? n) && (n <=? 57) then Some (n - 48) else None.

Fixpoint v4_fields (s : bytes) (first prevdot : bool) (val : N) (digLen : nat) (fields : list N)
  : option (list N) :=
  match s with
  | [] => if (List.length fields <? 3)%nat then None else Some (fields ++ [val])
  | c :: r =>
    match digit c with
    | Some d =>
      if (digLen =? 1)%nat && (val =? 0) then None             (* leading zero *)
      else let val' := val * 10 + d in
           if 255 <? val' then None
           else v4_fields r false false val' (S digLen) fields
    | None =>
      if Ascii.eqb c "." then
        if first || prevdot || (match r with [] => true | _ => false end) then None
        else if (List.length fields =? 3)%nat then None             (* too long *)
        else v4_fields r false true 0 O (fields ++ [val])
      else None                                                (* unexpected character *)
    end
  end.

Definition parse_v4 (s : bytes) : option N :=
  match v4_fields s true false 0 O [] with
  | Some [a; b; c; d] => Some (ip4 a b c d)
  | _ => None
  end.

(* ---- netip.parseIPv6 (called only on strings without '%', see net_parse_ip) ---- *)
Definition hexval (c : ascii) : option N :=
  let n := code c in
  if (48 <=? n) && (n <=? 57) then Some (n - 48)
  else if (97 <=? n) && (n <=? 102) then Some (n - 87)
  else if (65 <=? n) && (n <=? 70) then Some (n - 55)
  else None.

(* the inner digit loop: Some (off, acc, rest) or None (more than 4 digits / overflow) *)
Fixpoint hex_group (s : bytes) (off : nat) (acc : N) : option (nat * N * bytes) :=
  match s with
  | [] => Some (off, acc, s)
  | c :: r =>
    match hexval c with
    | None => Some (off, acc, s)
    | Some v =>
      let acc' := acc * 16 + v in
      if (3 <? off)%nat then None
      else if 65535 <? acc' then None
      else hex_group r (S off) acc'
    end
  end.

(* loop [for i < 16]; k = number of 16-bit groups still free = (16 - i) / 2.
   Returns (unconsumed input, groups, ellipsis position in groups) *)
Fixpoint v6_loop (k : nat) (s : bytes) (groups : list N) (ell : option nat)
  : option (bytes * list N * option nat) :=
  match k with
  | O => Some (s, groups, ell)
  | S k' =>
    match hex_group s O 0 with
    | None => None
    | Some (off, acc, rest) =>
      if (off =? 0)%nat then None
      else
        let dot := match rest with c :: _ => Ascii.eqb c "." | [] => false end in
        if dot then
          if (match ell with None => true | Some _ => false end) && negb (List.length groups =? 6)%nat then None
          else if (k' =? 0)%nat then None                    (* i+4 > 16 *)
          else match v4_fields s true false 0 O [] with
               | Some [a; b; c; d] => Some ([], groups ++ [a * 256 + b; c * 256 + d], ell)
               | _ => None
               end
        else
          let groups' := groups ++ [acc] in
          match rest with
          | [] => Some ([], groups', ell)
          | c :: r1 =>
            if negb (Ascii.eqb c ":") then None              (* want colon *)
            else match r1 with
                 | [] => None                                (* colon must be followed by more *)
                 | c2 :: r2 =>
                   if Ascii.eqb c2 ":" then
                     match ell with
                     | Some _ => None                        (* multiple :: *)
                     | None =>
                       match r2 with
                       | [] => Some ([], groups', Some (List.length groups'))
                       | _ => v6_loop k' r2 groups' (Some (List.length groups'))
                       end
                     end
                   else v6_loop k' r1 groups' ell
                 end
          end
    end
  end.

Definition parse_v6 (s : bytes) : option N :=
  let '(s1, ell0, only) :=
    match s with
    | c1 :: c2 :: r => if Ascii.eqb c1 ":" && Ascii.eqb c2 ":" then (r, Some O, match r with [] => true | _ => false end)
                       else (s, None, false)
    | _ => (s, None, false)
    end in
  if only then Some 0
  else
    match v6_loop 8 s1 [] ell0 with
    | None => None
    | Some (rest, groups, ell) =>
      match rest with
      | _ :: _ => None                                       (* trailing garbage *)
      | [] =>
        let n := List.length groups in
        if (n <? 8)%nat then
          match ell with
          | None => None                                     (* too short *)
          | Some e => Some (ip6 (firstn e groups ++ repeat 0 (8 - n) ++ skipn e groups))
          end
        else match ell with
             | Some _ => None                                (* :: must expand to at least one group *)
             | None => Some (ip6 groups)
             end
      end
    end.

(* ---- netip.ParseAddr dispatch + net.ParseIP (zones rejected) + IP.To4 ---- *)
Inductive kind := KV4 | KV6 | KNone.
Fixpoint addr_kind (s : bytes) : kind :=
  match s with
  | [] => KNone
  | c :: r => if Ascii.eqb c "." then KV4 else if Ascii.eqb c ":" then KV6
              else if Ascii.eqb c "%" then KNone else addr_kind r
  end.

Definition v4_mapped_prefix : N := 0xffff * 2 ^ 32.

(* net.ParseIP(s) projected through To4: None = nil *)
Definition net_parse_ip (s : bytes) : option ipaddr :=
  match addr_kind s with
  | KNone => None
  | KV4 => match parse_v4 s with Some x => Some (V4, x) | None => None end
  | KV6 =>
    (* parseIPv6 splits a zone off at the first '%': an empty zone is an error,
       a non-empty one is rejected by net.parseIP *)
    if contains "%" s then None
    else match parse_v6 s with
         | Some x => if N.shiftr x 32 =? 0xffff then Some (V4, N.land x 0xffffffff) else Some (V6, x)
         | None => None
         end
  end.

Definition is_unspecified (a : ipaddr) : bool := snd a =? 0.
