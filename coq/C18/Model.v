(* The concrete C18 model: requests, resolver configurations (constructors of
   clientip.go and options.go) and their evaluation with A := addr,
   parse := parse_ip_addr, ranges := the tables regenerated from the source. *)
From FoxBase Require Import Bytes.
From FoxC18 Require Import Cidr Types GoStd ParseIP Entries Strategies GenRanges.
Open Scope N_scope.

Record request := { xff : list bytes; forwarded : list bytes; single : list bytes; remote : bytes }.

(* TrustLoopback/ExcludeLoopback, TrustLinkLocal/ExcludeLinkLocal, TrustPrivateNet/ExcludePrivateNet *)
Inductive optkind := OLoopback | OLinkLocal | OPrivateNet.

Inductive resolver :=
| RRemoteAddr
| RSingle                                                   (* NewSingleIPHeader("X-Real-Ip") *)
| RLeftmost (fwd : bool) (limit : N) (opts : list (optkind * bool))
| RRightNonPrivate (fwd : bool) (opts : list (optkind * bool))
| RTrustedCount (fwd : bool) (n : N)
| RTrustedRange (fwd : bool) (ranges : option (list cidr))  (* None: the range resolver returns an error *)
| RChain (subs : list resolver).

Definition opt_table (k : optkind) : list cidr :=
  match k with OLoopback => loopbackRanges | OLinkLocal => linkLocalRanges | OPrivateNet => privateRange end.

(* options appended in order into cfg.ipRanges; orSlice(cfg.ipRanges, privateAndLocalRanges) *)
Definition ranges_of_opts (opts : list (optkind * bool)) : list cidr :=
  let cfg := flat_map (fun o : optkind * bool => if snd o then opt_table (fst o) else []) opts in
  match cfg with [] => privateAndLocalRanges | _ => cfg end.

(* isIPContainedInRanges(ip.IP, ranges) *)
Definition contained (ranges : list cidr) (a : addr) : bool := in_ranges ranges (fst a).

Definition header_values (rq : request) (fwd : bool) : list bytes := if fwd then forwarded rq else xff rq.

Fixpoint resolve (rq : request) (r : resolver) : result addr :=
  match r with
  | RRemoteAddr => remote_addr addr parse_ip_addr (remote rq)
  | RSingle => single_ip_header addr parse_ip_addr (single rq)
  | RLeftmost fwd limit opts =>
    leftmost_non_private addr parse_ip_addr fwd (header_values rq fwd) limit (contained (ranges_of_opts opts))
  | RRightNonPrivate fwd opts =>
    rightmost_non_private addr parse_ip_addr fwd (header_values rq fwd) (contained (ranges_of_opts opts))
  | RTrustedCount fwd n => rightmost_trusted_count addr parse_ip_addr fwd (header_values rq fwd) n
  | RTrustedRange fwd ranges =>
    rightmost_trusted_range addr parse_ip_addr fwd (header_values rq fwd) (option_map contained ranges)
  | RChain subs => chain addr (map (fun s _ => resolve rq s) subs)
  end.
