(* Model of the resolvers of clientip.go:88-341, over an arbitrary address type,
   an arbitrary ParseIPAddr [parse] and an arbitrary range test [trusted]. *)
From FoxBase Require Import Bytes.
From FoxC18 Require Import Cidr Types GoStd ParseIP Entries.
Open Scope N_scope.

Section Strategies.
  Variable A : Type.
  Variable parse : bytes -> pres A.

  (* RemoteAddr.ClientIP *)
  Definition remote_addr (remote : bytes) : result A :=
    match parse remote with
    | POk a => Ok a
    | PInvalid => Err [ERemoteInvalid]
    | PUnspec => Err [ERemoteUnspecified]
    | PPanic => Panic
    end.

  (* lastHeader: matches[len(matches)-1]; None = index out of range *)
  Definition last_header (matches : list bytes) : option bytes :=
    match matches with
    | [] => Some []
    | _ => nth_error matches (List.length matches - 1)
    end.

  (* SingleIPHeader.ClientIP *)
  Definition single_ip_header (matches : list bytes) : result A :=
    match last_header matches with
    | None => Panic
    | Some [] => Err [ESingleNotFound]
    | Some ipStr =>
      match parse ipStr with
      | POk a => Ok a
      | PInvalid => Err [EInvalidIP]
      | PUnspec => Err [EUnspecifiedIP]
      | PPanic => Panic
      end
    end.

  (* loop state of the range-over-func loops: None = still running / fell through *)
  Definition loop_state := option (result A).
  Definition finish (st : loop_state * bool) (fallthrough : result A) : result A :=
    match fst st with Some r => r | None => fallthrough end.

  (* loop body of LeftmostNonPrivate / RightmostNonPrivate:
       if ip != nil && !isIPContainedInRanges(ip.IP, ranges) { return ip, nil }
     (an element None is a panic raised while the iterator computed it) *)
  Definition scan_yield (tr : A -> bool) (ip : option (option A)) (st : loop_state) : loop_state * bool :=
    match ip with
    | None => (Some Panic, false)
    | Some (Some a) => if negb (tr a) then (Some (Ok a), false) else (st, true)
    | Some None => (st, true)
    end.

  (* loop body of RightmostTrustedRange *)
  Definition range_yield (tr : A -> bool) (ip : option (option A)) (st : loop_state) : loop_state * bool :=
    match ip with
    | None => (Some Panic, false)
    | Some (Some a) => if tr a then (st, true) else (Some (Ok a), false)      (* trusted: continue *)
    | Some None => (Some (Err [ERangeNoValid]), false)
    end.

  (* loop body of iterutil.At, with a panicking element made explicit (it aborts At) *)
  Definition count_yield (v : option (option A)) (st : option (option (option A)) * N)
    : option (option (option A)) * N * bool :=
    let '(res, n) := st in
    match v with
    | None => ((Some None, n), false)
    | Some e => if 0 <? n then ((res, n - 1), true) else ((Some (Some e), n), false)
    end.

  (* LeftmostNonPrivate.ClientIP *)
  Definition leftmost_non_private (fwd : bool) (values : list bytes) (limit : N) (blacklisted : A -> bool)
    : result A :=
    match values with
    | [] => Err [ELeftmost]
    | _ =>
      finish
        (take (ip_addr_seq A parse fwd values) limit loop_state (scan_yield blacklisted) None)
        (Err [ELeftmost])
    end.

  (* RightmostNonPrivate.ClientIP *)
  Definition rightmost_non_private (fwd : bool) (values : list bytes) (trusted : A -> bool) : result A :=
    match values with
    | [] => Err [ERightNonPrivate]
    | _ =>
      finish
        (backward_ip_addr_seq A parse fwd values loop_state (scan_yield trusted) None)
        (Err [ERightNonPrivate])
    end.

  (* RightmostTrustedCount.ClientIP: At(seq, trustedCount-1) on a uint *)
  Definition rightmost_trusted_count (fwd : bool) (values : list bytes) (trustedCount : N) : result A :=
    let n := if trustedCount =? 0 then 2 ^ 64 - 1 else trustedCount - 1 in
    let '((res, _), _) :=
      backward_ip_addr_seq A parse fwd values (option (option (option A)) * N)%type count_yield (None, n) in
    match res with
    | None => Err [ECountFewer]
    | Some None => Panic
    | Some (Some None) => Err [ECountInvalid]
    | Some (Some (Some a)) => Ok a
    end.

  (* RightmostTrustedRange.ClientIP; ranges = None when the TrustedIPRange resolver fails *)
  Definition rightmost_trusted_range (fwd : bool) (values : list bytes) (trusted : option (A -> bool))
    : result A :=
    match trusted with
    | None => Err [ERangeResolver]
    | Some trusted =>
      finish
        (backward_ip_addr_seq A parse fwd values loop_state (range_yield trusted) None)
        (Err [ERangeNoValid])
    end.

  (* Chain.ClientIP over the results of its members, evaluated lazily left to right.
     errs = errors.Join(errs, err); flattened to the leaf errors; errs == nil after the
     loop (no member ran) is errEmptyChain.  An (ip, nil) return with ip == nil
     (NoResult) would count as success, as in the code; no resolver returns it. *)
  Fixpoint chain_go (subs : list (unit -> result A)) (errs : option (list errk)) : result A :=
    match subs with
    | [] => match errs with Some es => Err es | None => Err [EChainEmpty] end
    | sub :: rest =>
      match sub tt with
      | Err e => chain_go rest (Some (match errs with Some es => es ++ e | None => e end))
      | r => r
      end
    end.
  Definition chain (subs : list (unit -> result A)) : result A := chain_go subs None.
End Strategies.
