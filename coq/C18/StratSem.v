(* Hand-written, trusted: the meaning of the primitives that harness/cmd/stratgen emits into GenStrat.v
   (docs/GenC18.md).  Nothing here mentions a particular strategy: these are the Go constructs the
   strategies of clientip.go are written with - range over a slice, range over a push iterator with an
   early return / continue / break in the body, (value, error) returns, calls that may panic, uint
   subtraction, the http.Header lookup.

   Representation (that of Types.v / Entries.v / Strategies.v, nothing new):
     *net.IPAddr in a strategy      option A            (None = nil)
     error                          option (list errk)  (None = nil; the leaf error kinds)
     *net.IPAddr inside an iterator option (option A)   (outer None = a panic raised while it was computed,
                                                         the convention of Entries.item_ip)
     http.Header[name]              hdr = option (list bytes)  (None = key absent)
     uint                           N, int Z, []net.IPNet as its membership test A -> bool. *)
From FoxBase Require Import Bytes.
From Coq Require Import ZArith.
From FoxC18 Require Import Cidr Types GoStd ParseIP Entries Strategies.
Open Scope N_scope.

Definition hdr := option (list bytes).
Definition hdr_values (h : hdr) : list bytes := match h with Some l => l | None => [] end.
Definition hdr_ok (h : hdr) : bool := match h with Some _ => true | None => false end.
Definition go_len {X} (l : list X) : Z := Z.of_nat (List.length l).
(* l[i] for an int i; None = index out of range (run-time panic) *)
Definition go_index {X} (l : list X) (i : Z) : option X :=
  if (i <? 0)%Z then None else nth_error l (Z.to_nat i).
Definition str_is_empty (s : bytes) : bool := match s with [] => true | _ => false end.
(* a - b on uint (64 bit), operands in range *)
Definition go_usub (a b : N) : N := if a <? b then a + 18446744073709551616 - b else a - b.

(* errors.Join, flattened to the leaf errors; nil arguments are discarded *)
Definition go_errors_join (a b : option (list errk)) : option (list errk) :=
  match a, b with
  | None, None => None
  | Some x, None => Some x
  | None, Some y => Some y
  | Some x, Some y => Some (x ++ y)
  end.
(* fmt.Errorf("%w: %w", ErrRemoteAddress, err): the kind of err under ErrRemoteAddress *)
Definition wrap_remote (es : list errk) : list errk :=
  map (fun e => match e with EInvalidIP => ERemoteInvalid | EUnspecifiedIP => ERemoteUnspecified | e => e end) es.
(* fmt.Errorf("%w: unable to resolve trusted ip range: %w", ErrRightmostTrustedRange, err) *)
Definition wrap_range_resolver (es : list errk) : list errk := [ERangeResolver].

Definition go_is_nil {X} (o : option X) : bool := match o with None => true | Some _ => false end.
(* s := f(..) for a clientip helper returning a string; None = it panicked *)
Definition go_call_str {R} (panic : R) (s : option bytes) (k : bytes -> R) : R :=
  match s with Some x => k x | None => panic end.

(* iterator-side loops: the consumer's state is threaded, false = the consumer stopped the iteration *)
Definition it_range_list {E S : Type} (l : list E) (body : E -> S -> S * bool) (st : S) (after : S -> S * bool)
  : S * bool :=
  let (st', k) := fold_stop body l st in if k then after st' else (st', false).
(* for i := len(l)-1; i >= 0; i-- { .. l[i] .. } *)
Definition it_range_list_backward {E S : Type} (l : list E) (body : E -> S -> S * bool) (st : S)
  (after : S -> S * bool) : S * bool := it_range_list (rev l) body st after.
Definition it_range_seq {E S : Type} (q : seq E) (body : E -> S -> S * bool) (st : S) (after : S -> S * bool)
  : S * bool :=
  let (st', k) := q S body st in if k then after st' else (st', false).

Section StratSem.
  Variable A : Type.
  Notation elem := (option (option A)).

  (* return ip, err  (the translator accepts it only when one of the two is the literal nil) *)
  Definition go_ret (ip : option A) (err : option (list errk)) : result A :=
    match err with
    | Some es => Err es
    | None => match ip with Some a => Ok a | None => NoResult end
    end.

  (* ipAddr, err := ParseIPAddr(s) *)
  Definition go_call_parse {R} (panic : R) (p : pres A) (k : option A -> option (list errk) -> R) : R :=
    match p with
    | POk a => k (Some a) None
    | PInvalid => k None (Some [EInvalidIP])
    | PUnspec => k None (Some [EUnspecifiedIP])
    | PPanic => panic
    end.
  (* ipAddr, _ = ParseIPAddr(s) inside an iterator *)
  Definition go_parse_discard (p : pres A) : elem :=
    match p with PPanic => None | p => Some (pres_opt p) end.
  (* ipAddr, err := sub.ClientIP(c) *)
  Definition go_call_resolver {R} (panic : R) (sub : unit -> result A)
    (k : option A -> option (list errk) -> R) : R :=
    match sub tt with
    | Ok a => k (Some a) None
    | Err es => k None (Some es)
    | NoResult => k None None
    | Panic => panic
    end.
  (* trustedRange, err := s.resolver.TrustedIPRange(); None = the user's resolver returned an error
     (of a kind the model does not look at; the nil slice contains nothing) *)
  Definition go_call_ranges {R} (tr : option (A -> bool)) (k : (A -> bool) -> option (list errk) -> R) : R :=
    match tr with
    | Some t => k t None
    | None => k (fun _ => false) (Some [EOther])
    end.
  (* outcome of one run of a loop body *)
  Inductive ctl (St : Type) := CNext (st : St) | CBreak (st : St) | CRet (r : result A).
  Arguments CNext {St} st. Arguments CBreak {St} st. Arguments CRet {St} r.

  (* for _, x := range l { body }; after *)
  Fixpoint go_range_list {E St : Type} (l : list E) (body : E -> St -> ctl St) (st : St)
    (after : St -> result A) : result A :=
    match l with
    | [] => after st
    | x :: r =>
      match body x st with
      | CNext st' => go_range_list r body st' after
      | CBreak st' => after st'
      | CRet res => res
      end
    end.

  (* for ip := range q { body }; after  - Go's range-over-func: the body is the yield function, it
     returns false after a return / break; an element that panicked while being computed aborts *)
  Definition go_range_seq {St : Type} (q : seq elem) (body : option A -> St -> ctl St) (st : St)
    (after : St -> result A) : result A :=
    let '(c, _) :=
      q (ctl St)
        (fun e c =>
           match c with
           | CNext st =>
             match e with
             | None => (CRet Panic, false)
             | Some ip => let c' := body ip st in (c', match c' with CNext _ => true | _ => false end)
             end
           | _ => (c, false)
           end)
        (CNext st) in
    match c with
    | CNext st' => after st'
    | CBreak st' => after st'
    | CRet res => res
    end.

  (* v, ok := iterutil.At(q, n); a panicking element reached before index n aborts (Strategies.count_yield) *)
  Definition go_At {R} (panic : R) (q : seq elem) (n : N) (k : option A -> bool -> R) : R :=
    let '((res, _), _) := q (option elem * N)%type (count_yield A) (None, n) in
    match res with
    | None => k None false
    | Some None => panic
    | Some (Some e) => k e true
    end.
End StratSem.
Arguments CNext {A St} st. Arguments CBreak {A St} st. Arguments CRet {A St} r.
