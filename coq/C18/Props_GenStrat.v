(* Tie A for the client-IP strategies of C18 (docs/GenC18.md): statements only.
   GenStrat.v is rewritten from clientip/clientip.go of the tree under test on every run (harness/cmd/stratgen);
   BridgeStrat.v proves the hand-written models of Entries.v / Strategies.v / Model.v equal to it. *)
From FoxBase Require Import Bytes.
From Coq Require Import ZArith.
From FoxC18 Require Import Cidr Iana Types GoStd ParseIP Spec Entries Strategies GenRanges Model Corr
  ModelProofs Examples StratSem GenStrat BridgeStrat.
Open Scope N_scope.

(* ================= the two sequence builders (iteration plumbing of ipAddrSeq / backwardIpAddrSeq) ================= *)

Theorem gen_ipAddrSeq_eq :
  forall (A : Type) (parse : bytes -> pres A) fwd values (S : Type) (y : option (option A) -> S -> S * bool) st,
    gen_ipAddrSeq A parse fwd values S y st = ip_addr_seq A parse fwd values S y st.
Proof. exact BridgeStrat.gen_ipAddrSeq_eq. Qed.
Print Assumptions gen_ipAddrSeq_eq.

Theorem gen_backwardIpAddrSeq_eq :
  forall (A : Type) (parse : bytes -> pres A) fwd values (S : Type) (y : option (option A) -> S -> S * bool) st,
    gen_backwardIpAddrSeq A parse fwd values S y st = backward_ip_addr_seq A parse fwd values S y st.
Proof. exact BridgeStrat.gen_backwardIpAddrSeq_eq. Qed.
Print Assumptions gen_backwardIpAddrSeq_eq.

Example gen_seqs_examples :
  collect (gen_ipAddrSeq addr parse_ip_addr false (xff ex_rq))
  = [Some (Some (a4 9 9 9 9)); Some (Some (a4 1 1 1 1)); Some (Some v6ex); Some None; Some (Some (a4 192 168 1 1))]
  /\ collect (gen_backwardIpAddrSeq addr parse_ip_addr false (xff ex_rq))
  = [Some (Some (a4 192 168 1 1)); Some None; Some (Some v6ex); Some (Some (a4 1 1 1 1)); Some (Some (a4 9 9 9 9))]
  /\ collect (gen_backwardIpAddrSeq addr (fun _ => PPanic) false [S2B "a,b"]) = [None; None].
Proof. exact ex_gen_seqs. Qed.
Print Assumptions gen_seqs_examples.

(* ================= every hand-written strategy model is the regenerated strategy, for all inputs ================= *)

Theorem gen_lastHeader_eq :
  forall h, gen_lastHeader h = last_header (hdr_values h).
Proof. exact BridgeStrat.gen_lastHeader_eq. Qed.
Print Assumptions gen_lastHeader_eq.

Theorem gen_SingleIPHeader_eq :
  forall (A : Type) (parse : bytes -> pres A) h,
    gen_SingleIPHeader_ClientIP A parse h = single_ip_header A parse (hdr_values h).
Proof. exact BridgeStrat.gen_SingleIPHeader_eq. Qed.
Print Assumptions gen_SingleIPHeader_eq.

Theorem gen_RemoteAddr_eq :
  forall (A : Type) (parse : bytes -> pres A) remote,
    gen_RemoteAddr_ClientIP A parse remote = remote_addr A parse remote.
Proof. exact BridgeStrat.gen_RemoteAddr_eq. Qed.
Print Assumptions gen_RemoteAddr_eq.

Example gen_single_remote_examples :
  gen_SingleIPHeader_ClientIP addr parse_ip_addr (Some (single ex_rq)) = Ok (a4 4 4 4 4)
  /\ gen_SingleIPHeader_ClientIP addr parse_ip_addr (Some [S2B "3.3.3.3"; S2B "nope"]) = Err [EInvalidIP]
  /\ gen_SingleIPHeader_ClientIP addr parse_ip_addr None = Err [ESingleNotFound]
  /\ gen_RemoteAddr_ClientIP addr parse_ip_addr (S2B "1.2.3.4:80") = Ok (a4 1 2 3 4)
  /\ gen_RemoteAddr_ClientIP addr parse_ip_addr (S2B "@") = Err [ERemoteInvalid].
Proof. exact ex_gen_single_remote. Qed.
Print Assumptions gen_single_remote_examples.

Theorem gen_LeftmostNonPrivate_eq :
  forall (A : Type) (parse : bytes -> pres A) fwd h limit blacklisted,
    gen_LeftmostNonPrivate_ClientIP A parse fwd h limit blacklisted
    = leftmost_non_private A parse fwd (hdr_values h) limit blacklisted.
Proof. exact BridgeStrat.gen_LeftmostNonPrivate_eq. Qed.
Print Assumptions gen_LeftmostNonPrivate_eq.

Theorem gen_RightmostNonPrivate_eq :
  forall (A : Type) (parse : bytes -> pres A) fwd h trusted,
    gen_RightmostNonPrivate_ClientIP A parse fwd h trusted = rightmost_non_private A parse fwd (hdr_values h) trusted.
Proof. exact BridgeStrat.gen_RightmostNonPrivate_eq. Qed.
Print Assumptions gen_RightmostNonPrivate_eq.

Theorem gen_RightmostTrustedRange_eq :
  forall (A : Type) (parse : bytes -> pres A) fwd h trusted,
    gen_RightmostTrustedRange_ClientIP A parse fwd h trusted = rightmost_trusted_range A parse fwd (hdr_values h) trusted.
Proof. exact BridgeStrat.gen_RightmostTrustedRange_eq. Qed.
Print Assumptions gen_RightmostTrustedRange_eq.

Example gen_scan_examples :
  gen_RightmostNonPrivate_ClientIP addr parse_ip_addr false ex_h (contained privateAndLocalRanges) = Ok (a4 1 1 1 1)
  /\ gen_LeftmostNonPrivate_ClientIP addr parse_ip_addr false ex_h 1 (contained privateAndLocalRanges) = Ok (a4 9 9 9 9)
  /\ gen_LeftmostNonPrivate_ClientIP addr parse_ip_addr false (Some [S2B "10.0.0.1, 10.0.0.2, 8.8.8.8"]) 2
       (contained privateAndLocalRanges) = Err [ELeftmost]
  /\ gen_LeftmostNonPrivate_ClientIP addr parse_ip_addr false None 2 (contained privateAndLocalRanges) = Err [ELeftmost]
  /\ gen_RightmostTrustedRange_ClientIP addr parse_ip_addr false ex_h (Some (contained [(V4, ip4 192 168 0 0, 16)]))
     = Err [ERangeNoValid]
  /\ gen_RightmostTrustedRange_ClientIP addr parse_ip_addr false ex_h None = Err [ERangeResolver].
Proof. exact ex_gen_scans. Qed.
Print Assumptions gen_scan_examples.

Theorem gen_RightmostTrustedCount_eq :
  forall (A : Type) (parse : bytes -> pres A) fwd h (n : N),
    gen_RightmostTrustedCount_ClientIP A parse fwd h n = rightmost_trusted_count A parse fwd (hdr_values h) n.
Proof. exact BridgeStrat.gen_RightmostTrustedCount_eq. Qed.
Print Assumptions gen_RightmostTrustedCount_eq.

Example gen_count_examples :
  gen_RightmostTrustedCount_ClientIP addr parse_ip_addr false ex_h 2 = Err [ECountInvalid]
  /\ gen_RightmostTrustedCount_ClientIP addr parse_ip_addr false ex_h 3 = Ok v6ex
  /\ gen_RightmostTrustedCount_ClientIP addr parse_ip_addr false ex_h 6 = Err [ECountFewer]
  /\ gen_RightmostTrustedCount_ClientIP addr parse_ip_addr false ex_h 0 = Err [ECountFewer]
  /\ gen_RightmostTrustedCount_ClientIP addr parse_ip_addr false ex_h 18446744073709551615 = Err [ECountFewer].
Proof. exact ex_gen_count. Qed.
Print Assumptions gen_count_examples.

Theorem gen_Chain_eq :
  forall (A : Type) (subs : list (unit -> result A)), gen_Chain_ClientIP A subs = chain A subs.
Proof. exact BridgeStrat.gen_Chain_eq. Qed.
Print Assumptions gen_Chain_eq.

Theorem gen_resolve_eq :
  forall (mk : list bytes -> hdr), (forall l, hdr_values (mk l) = l) ->
  forall rq r, gen_resolve mk rq r = resolve rq r.
Proof. exact BridgeStrat.gen_resolve_eq. Qed.
Print Assumptions gen_resolve_eq.

Example gen_chain_examples :
  gen_Chain_ClientIP addr [(fun _ => Err [ELeftmost]); (fun _ => Ok (a4 4 4 4 4)); (fun _ => Panic)] = Ok (a4 4 4 4 4)
  /\ gen_Chain_ClientIP addr [(fun _ => Err [ELeftmost]); (fun _ => Err [ECountFewer; ERemoteInvalid])]
     = Err [ELeftmost; ECountFewer; ERemoteInvalid]
  /\ gen_Chain_ClientIP addr [] = Err [EChainEmpty]
  /\ gen_resolve Some ex_rq (RChain [RTrustedCount false 2; RTrustedRange true None; RSingle; RRemoteAddr]) = Ok (a4 4 4 4 4).
Proof. exact ex_gen_chain. Qed.
Print Assumptions gen_chain_examples.

(* ================= the theorems of C18, restated over the regenerated definitions ================= *)

Theorem gen_trusted_count_nth :
  forall (A : Type) (parse : bytes -> pres A), (forall s, parse s <> PPanic) ->
  forall fwd h n, 0 < n ->
    gen_RightmostTrustedCount_ClientIP A parse fwd h n =
    match nth_error (rev (spec_entries A parse fwd (hdr_values h))) (N.to_nat n - 1) with
    | Some (Some a) => Ok a
    | Some None => Err [ECountInvalid]
    | None => Err [ECountFewer]
    end.
Proof. exact BridgeStrat.gen_trusted_count_nth. Qed.
Print Assumptions gen_trusted_count_nth.

Theorem gen_rightmost_non_private_spec :
  forall (A : Type) (parse : bytes -> pres A), (forall s, parse s <> PPanic) ->
  forall fwd h trusted,
    gen_RightmostNonPrivate_ClientIP A parse fwd h trusted =
    match find (untrusted_addr A trusted) (rev (spec_entries A parse fwd (hdr_values h))) with
    | Some (Some a) => Ok a
    | _ => Err [ERightNonPrivate]
    end.
Proof. exact BridgeStrat.gen_rightmost_non_private_spec. Qed.
Print Assumptions gen_rightmost_non_private_spec.

Theorem gen_trusted_range_spec :
  forall (A : Type) (parse : bytes -> pres A), (forall s, parse s <> PPanic) ->
  forall fwd h trusted,
    gen_RightmostTrustedRange_ClientIP A parse fwd h (Some trusted) =
    match find (fun e => negb (trusted_addr A trusted e)) (rev (spec_entries A parse fwd (hdr_values h))) with
    | Some (Some a) => Ok a
    | _ => Err [ERangeNoValid]
    end.
Proof. exact BridgeStrat.gen_trusted_range_spec. Qed.
Print Assumptions gen_trusted_range_spec.

Theorem gen_leftmost_spec :
  forall (A : Type) (parse : bytes -> pres A), (forall s, parse s <> PPanic) ->
  forall fwd h limit blacklisted,
    gen_LeftmostNonPrivate_ClientIP A parse fwd h limit blacklisted =
    match find (untrusted_addr A blacklisted) (firstn (N.to_nat limit) (spec_entries A parse fwd (hdr_values h))) with
    | Some (Some a) => Ok a
    | _ => Err [ELeftmost]
    end.
Proof. exact BridgeStrat.gen_leftmost_spec. Qed.
Print Assumptions gen_leftmost_spec.

Theorem gen_single_header_last :
  forall (A : Type) (parse : bytes -> pres A) h,
    gen_SingleIPHeader_ClientIP A parse h =
    match rev (hdr_values h) with
    | [] => Err [ESingleNotFound]
    | [] :: _ => Err [ESingleNotFound]
    | l :: _ => match parse l with
                | POk a => Ok a
                | PInvalid => Err [EInvalidIP]
                | PUnspec => Err [EUnspecifiedIP]
                | PPanic => Panic
                end
    end.
Proof. exact BridgeStrat.gen_single_header_last. Qed.
Print Assumptions gen_single_header_last.

Theorem gen_chain_first_success :
  forall (A : Type) pre (s : unit -> result A) post a,
    Forall (fun p : unit -> result A => exists e, p tt = Err e) pre ->
    s tt = Ok a -> gen_Chain_ClientIP A (pre ++ s :: post) = Ok a.
Proof. exact BridgeStrat.gen_chain_first_success. Qed.
Print Assumptions gen_chain_first_success.

Theorem gen_chain_all_errors :
  forall (A : Type) subs,
    Forall (fun p : unit -> result A => exists e, p tt = Err e) subs ->
    exists es, gen_Chain_ClientIP A subs = Err es.
Proof. exact BridgeStrat.gen_chain_all_errors. Qed.
Print Assumptions gen_chain_all_errors.

Theorem gen_error_never_fallback :
  forall (mk : list bytes -> hdr), (forall l, hdr_values (mk l) = l) ->
  forall rq r, wf_resolver r = true ->
    (forall a, gen_resolve mk rq r = Ok a <-> spec_resolve rq r = Ok a)
    /\ (forall e, spec_resolve rq r = Err e -> gen_resolve mk rq r = Err e).
Proof. exact BridgeStrat.gen_error_never_fallback. Qed.
Print Assumptions gen_error_never_fallback.

Theorem gen_resolve_never_panics :
  forall (mk : list bytes -> hdr), (forall l, hdr_values (mk l) = l) ->
  forall rq r, gen_resolve mk rq r <> Panic.
Proof. exact BridgeStrat.gen_resolve_never_panics. Qed.
Print Assumptions gen_resolve_never_panics.
