(* The IANA IPv4 / IPv6 Special-Purpose Address Registries (RFC 6890 and updates)
   and multicast space, written out from the RFCs; independent of fox's tables.
   Registry blocks are taken whole. *)
From Coq Require Import NArith List Bool.
From FoxC18 Require Import Cidr.
Import ListNotations.
Open Scope N_scope.

Definition iana_v4 : list cidr := [
  (V4, ip4 0 0 0 0, 8);          (* "This network"            RFC 791 / 1122 3.2.1.3 *)
  (V4, ip4 10 0 0 0, 8);         (* Private-Use               RFC 1918 *)
  (V4, ip4 100 64 0 0, 10);      (* Shared Address Space      RFC 6598 *)
  (V4, ip4 127 0 0 0, 8);        (* Loopback                  RFC 1122 3.2.1.3 *)
  (V4, ip4 169 254 0 0, 16);     (* Link Local                RFC 3927 *)
  (V4, ip4 172 16 0 0, 12);      (* Private-Use               RFC 1918 *)
  (V4, ip4 192 0 0 0, 24);       (* IETF Protocol Assignments RFC 6890 2.1 *)
  (V4, ip4 192 0 2 0, 24);       (* Documentation TEST-NET-1  RFC 5737 *)
  (V4, ip4 192 88 99 0, 24);     (* 6to4 Relay Anycast        RFC 3068 / 7526 *)
  (V4, ip4 192 168 0 0, 16);     (* Private-Use               RFC 1918 *)
  (V4, ip4 198 18 0 0, 15);      (* Benchmarking              RFC 2544 *)
  (V4, ip4 198 51 100 0, 24);    (* Documentation TEST-NET-2  RFC 5737 *)
  (V4, ip4 203 0 113 0, 24);     (* Documentation TEST-NET-3  RFC 5737 *)
  (V4, ip4 240 0 0 0, 4);        (* Reserved                  RFC 1112 4 *)
  (V4, ip4 255 255 255 255, 32); (* Limited Broadcast         RFC 919 7 / RFC 8190 *)
  (V4, ip4 224 0 0 0, 4)         (* Multicast                 RFC 5771 *)
].

Definition iana_v6 : list cidr := [
  (V6, ip6 [0; 0; 0; 0; 0; 0; 0; 0], 128);           (* Unspecified Address    RFC 4291 *)
  (V6, ip6 [0; 0; 0; 0; 0; 0; 0; 1], 128);           (* Loopback Address       RFC 4291 *)
  (V6, ip6 [0; 0; 0; 0; 0; 0xffff; 0; 0], 96);       (* IPv4-mapped Address    RFC 4291 *)
  (V6, ip6 [0x64; 0xff9b; 1; 0; 0; 0; 0; 0], 48);    (* IPv4-IPv6 Translat.    RFC 8215 *)
  (V6, ip6 [0x100; 0; 0; 0; 0; 0; 0; 0], 64);        (* Discard-Only           RFC 6666 *)
  (V6, ip6 [0x2001; 0; 0; 0; 0; 0; 0; 0], 23);       (* IETF Protocol Assignm. RFC 2928 *)
  (V6, ip6 [0x2001; 0xdb8; 0; 0; 0; 0; 0; 0], 32);   (* Documentation          RFC 3849 *)
  (V6, ip6 [0x2002; 0; 0; 0; 0; 0; 0; 0], 16);       (* 6to4                   RFC 3056 *)
  (V6, ip6 [0xfc00; 0; 0; 0; 0; 0; 0; 0], 7);        (* Unique-Local           RFC 4193 *)
  (V6, ip6 [0xfe80; 0; 0; 0; 0; 0; 0; 0], 10);       (* Link-Local Unicast     RFC 4291 *)
  (V6, ip6 [0xff00; 0; 0; 0; 0; 0; 0; 0], 8)         (* Multicast              RFC 4291 2.7 *)
].

Definition iana_blocks : list cidr := iana_v4 ++ iana_v6.

(* not globally routable, as a decision procedure on one address ... *)
Definition special_purposeb (a : ipaddr) : bool := in_ranges iana_blocks a.
(* ... and as the proposition used in the theorems *)
Definition special_purpose (a : ipaddr) : Prop := exists b, In b iana_blocks /\ cidr_in b a.
