(* Audit of the default range tables regenerated from clientip.go (GenRanges.v)
   against the IANA registries (Iana.v). *)
From Coq Require Import NArith List Bool Lia.
From FoxC18 Require Import Cidr Iana GenRanges.
Import ListNotations.
Open Scope N_scope.

Definition covered (c : cidr) : bool := existsb (cidr_subset c) iana_blocks.

Lemma covered_sound c : covered c = true -> forall a, cidr_in c a -> special_purpose a.
Proof.
  unfold covered. intros H a Ha. apply existsb_exists in H. destruct H as [b [Hb Hs]].
  exists b. split; [exact Hb|]. exact (cidr_subset_sound c b Hs a Ha).
Qed.

Lemma special_purpose_b a : special_purpose a -> special_purposeb a = true.
Proof.
  intros [b [Hb [_ Hin]]]. unfold special_purposeb, in_ranges. apply existsb_exists. exists b; auto.
Qed.

Definition default_tables_checked : bool :=
  forallb (forallb covered) all_default_tables.

(* finite table, decided completely by computation *)
Lemma default_tables_checked_true : default_tables_checked = true.
Proof. vm_compute. reflexivity. Qed.

Lemma default_ranges_not_global_lemma :
  forall t, In t all_default_tables -> forall c, In c t ->
  forall a, cidr_in c a -> special_purpose a.
Proof.
  intros t Ht c Hc. apply covered_sound.
  pose proof default_tables_checked_true as H. unfold default_tables_checked in H.
  rewrite forallb_forall in H. specialize (H t Ht). rewrite forallb_forall in H. exact (H c Hc).
Qed.

(* the pinned typo (192.18.0.0/15 for 198.18.0.0/15, since fixed in /repo) is rejected *)
Lemma typo_block_not_covered : covered (V4, ip4 192 18 0 0, 15) = false.
Proof. vm_compute. reflexivity. Qed.

Lemma typo_witness_global : special_purposeb (V4, ip4 192 18 0 1) = false
  /\ cidr_in (V4, ip4 192 18 0 0, 15) (V4, ip4 192 18 0 1).
Proof. split; [vm_compute; reflexivity|]. split; vm_compute; reflexivity. Qed.

(* non-vacuity: a default block that really contains addresses, and one of them *)
Lemma default_ranges_nonvacuous :
  In (V4, ip4 10 0 0 0, 8) privateAndLocalRanges /\ cidr_in (V4, ip4 10 0 0 0, 8) (V4, ip4 10 255 3 7)
  /\ In (V6, ip6 [0xfe80;0;0;0;0;0;0;0], 10) linkLocalRanges
  /\ cidr_in (V6, ip6 [0xfe80;0;0;0;0;0;0;0], 10) (V6, ip6 [0xfe80;0;0;0;0;0;0xab;1]).
Proof.
  repeat split; try (vm_compute; reflexivity); vm_compute; tauto.
Qed.
