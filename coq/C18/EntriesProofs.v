(* Proofs about the lazy header iteration (Entries.v): every iterator of the
   model enumerates a list the specification (Spec.v) defines, in order, and
   stops exactly when its consumer says so. *)
From FoxBase Require Import Bytes.
From FoxC18 Require Import Cidr Types GoStd ParseIP GenRanges Spec Entries.
From Coq Require Import Lia.
Open Scope N_scope.

(* ------------------------------------------------------------------ fold_stop *)
Lemma fold_stop_app {E S} (y : E -> S -> S * bool) l1 l2 st :
  fold_stop y (l1 ++ l2) st =
  let (st', k) := fold_stop y l1 st in if k then fold_stop y l2 st' else (st', false).
Proof.
  revert st. induction l1 as [|x l1 IH]; intros st; simpl.
  - reflexivity.
  - destruct (y x st) as [st' k]. destruct k; [apply IH | reflexivity].
Qed.

Lemma fold_stop_map {E F S} (f : E -> F) (y : F -> S -> S * bool) l st :
  fold_stop (fun x s => y (f x) s) l st = fold_stop y (map f l) st.
Proof.
  revert st. induction l as [|x l IH]; intros st; simpl; [reflexivity|].
  destruct (y (f x) st) as [st' k]. destruct k; [apply IH | reflexivity].
Qed.

Lemma fold_stop_single {E S} (y : E -> S -> S * bool) x st : fold_stop y [x] st = y x st.
Proof. simpl. destruct (y x st) as [st' k]. destruct k; reflexivity. Qed.

(* ------------------------------------------------------------------ split_on *)
Lemma split_on_nonempty sep s : split_on sep s <> [].
Proof.
  destruct s as [|c r]; simpl; [discriminate|].
  unfold split_on; simpl. destruct (Ascii.eqb c sep); [discriminate|].
  destruct (fold_right _ _ r); discriminate.
Qed.

Lemma split_on_cons sep c r :
  split_on sep (c :: r) =
  if Ascii.eqb c sep then [] :: split_on sep r
  else match split_on sep r with h :: t => (c :: h) :: t | [] => [[c]] end.
Proof. reflexivity. Qed.

Lemma split_on_nil sep : split_on sep [] = [[]].
Proof. reflexivity. Qed.

(* splitting is compositional at a separator *)
Lemma split_on_sep_app sep t l :
  split_on sep (t ++ sep :: l) = split_on sep t ++ split_on sep l.
Proof.
  induction t as [|c t IH]; simpl app.
  - rewrite split_on_cons, Ascii.eqb_refl. reflexivity.
  - rewrite !split_on_cons. destruct (Ascii.eqb c sep).
    + rewrite IH. reflexivity.
    + rewrite IH. pose proof (split_on_nonempty sep t) as Hne.
      destruct (split_on sep t) as [|h tl]; [congruence|]. reflexivity.
Qed.

Definition app_last (L : list bytes) (c : ascii) : list bytes :=
  removelast L ++ [last L [] ++ [c]].

Lemma split_on_snoc_other sep l c :
  Ascii.eqb c sep = false -> split_on sep (l ++ [c]) = app_last (split_on sep l) c.
Proof.
  intros Hc. induction l as [|x l IH]; simpl app.
  - rewrite split_on_cons, Hc. reflexivity.
  - rewrite !split_on_cons. pose proof (split_on_nonempty sep l) as Hne.
    destruct (Ascii.eqb x sep).
    + rewrite IH. unfold app_last. destruct (split_on sep l) as [|h t]; [congruence|]. reflexivity.
    + rewrite IH. unfold app_last. destruct (split_on sep l) as [|h t]; [congruence|].
      destruct t as [|h2 t2]; reflexivity.
Qed.

Lemma split_on_rev sep s : split_on sep (rev s) = rev (map (@rev ascii) (split_on sep s)).
Proof.
  induction s as [|c r IH]; [reflexivity|].
  change (rev (c :: r)) with (rev r ++ [c]). rewrite split_on_cons. destruct (Ascii.eqb c sep) eqn:Hc.
  - apply Ascii.eqb_eq in Hc. subst c.
    rewrite (split_on_sep_app sep (rev r) []), IH. reflexivity.
  - rewrite (split_on_snoc_other _ _ _ Hc), IH.
    pose proof (split_on_nonempty sep r) as Hne.
    destruct (split_on sep r) as [|h t]; [congruence|].
    simpl map. simpl rev. unfold app_last.
    rewrite removelast_last, last_last. reflexivity.
Qed.

(* ------------------------------------------------------------------ the iterators *)
Definition push_front (p : bytes) (L : list bytes) : list bytes :=
  match L with h :: t => (p ++ h) :: t | [] => [p] end.

Lemma split_go_is sep s : forall cur S (y : bytes -> S -> S * bool) st,
  split_go sep cur s S y st = fold_stop y (push_front (rev cur) (split_on sep s)) st.
Proof.
  induction s as [|c r IH]; intros cur S y st.
  - simpl split_go. rewrite split_on_nil. simpl push_front. rewrite app_nil_r.
    symmetry. apply fold_stop_single.
  - simpl split_go. rewrite split_on_cons. destruct (Ascii.eqb c sep).
    + simpl push_front. rewrite app_nil_r. simpl fold_stop.
      destruct (y (rev cur) st) as [st' k]. destruct k; [|reflexivity].
      rewrite IH. simpl rev. pose proof (split_on_nonempty sep r) as Hne.
      destruct (split_on sep r); [congruence|]. reflexivity.
    + rewrite IH. simpl rev. pose proof (split_on_nonempty sep r) as Hne.
      destruct (split_on sep r) as [|h t]; [congruence|]. simpl push_front.
      rewrite <- app_assoc. reflexivity.
Qed.

Theorem split_seq_is sep s : seq_is (split_seq sep s) (split_on sep s).
Proof.
  intros S y st. unfold split_seq. rewrite split_go_is. simpl rev.
  pose proof (split_on_nonempty sep s) as Hne.
  destruct (split_on sep s); [congruence|]. reflexivity.
Qed.

Lemma bsplit_go_split_go sep rs : forall cur S (y : bytes -> S -> S * bool) st,
  bsplit_go sep cur rs S y st = split_go sep cur rs S (fun x s => y (rev x) s) st.
Proof.
  induction rs as [|c r IH]; intros cur S y st; simpl.
  - rewrite rev_involutive. reflexivity.
  - destruct (Ascii.eqb c sep).
    + rewrite rev_involutive. destruct (y cur st) as [st' k]. destruct k; [apply IH | reflexivity].
    + apply IH.
Qed.

Theorem bsplit_seq_is sep s : seq_is (bsplit_seq sep s) (rev (split_on sep s)).
Proof.
  intros S y st. unfold bsplit_seq. rewrite bsplit_go_split_go.
  change (split_go sep [] (rev s) S (fun x s0 => y (rev x) s0) st)
    with (split_seq sep (rev s) S (fun x s0 => y (rev x) s0) st).
  rewrite (split_seq_is sep (rev s)). rewrite fold_stop_map. rewrite split_on_rev.
  rewrite <- map_rev, map_map.
  rewrite (map_ext _ (fun x => x)) by (intros; apply rev_involutive). rewrite map_id. reflexivity.
Qed.

(* iterutil.Take *)
Lemma take_fold {E S} (y : E -> S -> S * bool) l : forall n st,
  (let '((st', _, stopped), _) :=
     fold_stop (fun e '(s, cnt, _) =>
                  if 0 <? cnt then
                    let (s', k) := y e s in
                    if k then ((s', cnt - 1, false), true) else ((s', cnt, true), false)
                  else ((s, cnt, false), false)) l (st, n, false) in
   (st', negb stopped))
  = fold_stop y (firstn (N.to_nat n) l) st.
Proof.
  induction l as [|x r IH]; intros n st.
  - simpl. rewrite firstn_nil. reflexivity.
  - simpl fold_stop at 1. destruct (0 <? n) eqn:Hn.
    + apply N.ltb_lt in Hn. replace (N.to_nat n) with (Datatypes.S (N.to_nat (n - 1))) by lia.
      simpl firstn. simpl fold_stop. destruct (y x st) as [s' k]. destruct k.
      * apply IH.
      * reflexivity.
    + apply N.ltb_ge in Hn. replace (N.to_nat n) with O by lia. reflexivity.
Qed.

Theorem take_is {E} (q : seq E) l n : seq_is q l -> seq_is (take q n) (firstn (N.to_nat n) l).
Proof.
  intros Hq S y st. unfold take. rewrite Hq. apply take_fold.
Qed.

(* iterutil.At *)
Lemma at_fold {E} (l : list E) : forall n res,
  (let '((r, _), _) :=
     fold_stop (fun v '(res, n) => if 0 <? n then ((res, n - 1), true) else ((Some v, n), false)) l (res, n) in r)
  = match nth_error l (N.to_nat n) with Some v => Some v | None => res end.
Proof.
  induction l as [|x r IH]; intros n res.
  - simpl. destruct (N.to_nat n); reflexivity.
  - simpl fold_stop. destruct (0 <? n) eqn:Hn.
    + apply N.ltb_lt in Hn. replace (N.to_nat n) with (Datatypes.S (N.to_nat (n - 1))) by lia.
      simpl nth_error. apply IH.
    + apply N.ltb_ge in Hn. replace (N.to_nat n) with O by lia. reflexivity.
Qed.

Theorem at_is {E} (q : seq E) l n : seq_is q l -> at_ q n = nth_error l (N.to_nat n).
Proof.
  intros Hq. unfold at_. rewrite Hq. rewrite at_fold. destruct (nth_error l (N.to_nat n)); reflexivity.
Qed.

(* ------------------------------------------------------------------ list facts *)
Lemma flat_map_rev {X Y} (f : X -> list Y) l :
  rev (flat_map f l) = flat_map (fun x => rev (f x)) (rev l).
Proof.
  induction l as [|x l IH]; [reflexivity|].
  simpl. rewrite rev_app_distr, IH, flat_map_app. simpl. rewrite app_nil_r. reflexivity.
Qed.

Lemma nth_error_last_cons {X} (l : list X) : forall x d,
  nth_error (x :: l) (List.length l) = Some (last (x :: l) d).
Proof.
  induction l as [|x2 l IH]; intros x d; [reflexivity|].
  change (nth_error (x :: x2 :: l) (List.length (x2 :: l))) with (nth_error (x2 :: l) (List.length l)).
  rewrite (IH x2 d). reflexivity.
Qed.

Lemma nth_error_last {X} (l : list X) d : l <> [] -> nth_error l (List.length l - 1) = Some (last l d).
Proof.
  destruct l as [|x l]; [congruence|]. intros _.
  replace (List.length (x :: l) - 1)%nat with (List.length l) by (simpl; lia).
  apply nth_error_last_cons.
Qed.

(* ------------------------------------------------------------------ items *)
Lemma trim_matched_ends_quote s : trim_matched_ends s (S2B """") = Some (spec_unquote s).
Proof.
  unfold trim_matched_ends. simpl List.length. simpl nth_error. cbv iota beta.
  change ((1 =? 1)%nat || (1 =? 2)%nat) with true. cbv iota beta. simpl negb. cbv iota.
  change (1 <? 1)%nat with false. cbv iota.
  destruct s as [|q r]; [reflexivity|].
  destruct r as [|r0 r1]; [reflexivity|].
  change (List.length (q :: r0 :: r1) <? 2)%nat with false. cbv iota.
  simpl nth_error at 1. cbv iota beta.
  unfold spec_unquote.
  destruct (Ascii.eqb q """") eqn:Hq; simpl negb; cbv iota; [|reflexivity].
  rewrite (nth_error_last_cons r1 r0 q).
  destruct (Ascii.eqb (last (r0 :: r1) q) """") eqn:Hl; simpl negb; simpl andb; cbv iota; [|reflexivity].
  unfold slice.
  assert (Hle : ((1 <=? List.length (q :: r0 :: r1) - 1)%nat
                 && (List.length (q :: r0 :: r1) - 1 <=? List.length (q :: r0 :: r1))%nat) = true).
  { apply andb_true_iff; split; apply Nat.leb_le; simpl; lia. }
  rewrite Hle. f_equal.
  rewrite removelast_firstn_len. simpl skipn.
  f_equal. simpl. lia.
Qed.

Lemma trim_matched_ends_brackets_total s : trim_matched_ends s (S2B "[]") <> None.
Proof.
  unfold trim_matched_ends. simpl List.length. simpl nth_error.
  change ((2 =? 1)%nat || (2 =? 2)%nat) with true. simpl negb. cbv iota.
  change (1 <? 2)%nat with true. cbv iota.
  destruct s as [|q r]; [discriminate|].
  destruct r as [|r0 r1]; [discriminate|].
  change (List.length (q :: r0 :: r1) <? 2)%nat with false. cbv iota.
  simpl nth_error at 1.
  destruct (negb (Ascii.eqb q "[")); [discriminate|].
  rewrite (nth_error_last_cons r1 r0 q).
  destruct (negb _); [discriminate|].
  unfold slice.
  assert (Hle : ((1 <=? List.length (q :: r0 :: r1) - 1)%nat
                 && (List.length (q :: r0 :: r1) - 1 <=? List.length (q :: r0 :: r1))%nat) = true).
  { apply andb_true_iff; split; apply Nat.leb_le; simpl; lia. }
  rewrite Hle. discriminate.
Qed.

Theorem parse_ip_addr_no_panic s : parse_ip_addr s <> PPanic.
Proof.
  unfold parse_ip_addr.
  destruct (trim_matched_ends _ _) as [ip2|] eqn:Ht.
  - destruct (split_host_zone ip2) as [ipStr zone].
    destruct (net_parse_ip ipStr) as [a|]; [|discriminate].
    destruct (is_unspecified a); discriminate.
  - exfalso. exact (trim_matched_ends_brackets_total _ Ht).
Qed.

Section ItemsProofs.
  Variable A : Type.
  Variable parse : bytes -> pres A.
  Hypothesis parse_no_panic : forall s, parse s <> PPanic.

  Lemma for_fold l : forall acc,
    fst (fold_stop for_yield l acc) =
    match find (fun kv : option (bytes * bytes) => match kv with Some (k, _) => is_for k | None => false end)
               (map (fun p => cut "=" (trim_space p)) l) with
    | Some (Some (_, v)) => v
    | _ => acc
    end.
  Proof.
    induction l as [|x l IH]; intros acc; [reflexivity|].
    simpl fold_stop. simpl map. simpl find. unfold for_yield at 1.
    destruct (cut "=" (trim_space x)) as [[k v]|].
    - destruct (is_for k); [reflexivity | apply IH].
    - apply IH.
  Qed.

  Lemma parse_forwarded_list_item_spec fwd :
    parse_forwarded_list_item A parse fwd =
    Some (match spec_for_value fwd with
          | Some v => match spec_unquote (trim_space v) with
                      | [] => None
                      | t => pres_opt (parse t)
                      end
          | None => None
          end).
  Proof.
    unfold parse_forwarded_list_item.
    pose proof (take_is _ _ forwarded_max_parts (split_seq_is ";" fwd)) as Ht.
    rewrite (Ht bytes). clear Ht.
    pose proof (for_fold (firstn (N.to_nat forwarded_max_parts) (split_on ";" fwd)) []) as Hf.
    destruct (fold_stop for_yield (firstn (N.to_nat forwarded_max_parts) (split_on ";" fwd)) []) as [forPart k].
    simpl fst in Hf. subst forPart.
    unfold spec_for_value. change (N.to_nat forwarded_max_parts) with 4%nat.
    destruct (find _ _) as [[[k0 v]|]|].
    - rewrite trim_matched_ends_quote.
      destruct (spec_unquote (trim_space v)) as [|c t]; [reflexivity|].
      destruct (parse (c :: t)) eqn:Hp; try reflexivity. exfalso. exact (parse_no_panic _ Hp).
    - reflexivity.
    - reflexivity.
  Qed.

  (* the loop body of the iterators computes the specification's entry *)
  Theorem item_ip_spec fwd raw : item_ip A parse fwd raw = Some (spec_item A parse fwd raw).
  Proof.
    unfold item_ip, spec_item, spec_item_text. destruct fwd.
    - rewrite parse_forwarded_list_item_spec.
      destruct (spec_for_value (trim_space raw)) as [v|]; [|reflexivity].
      destruct (spec_unquote (trim_space v)); reflexivity.
    - destruct (parse (trim_space raw)) eqn:Hp; try reflexivity. exfalso. exact (parse_no_panic _ Hp).
  Qed.

  (* ipAddrSeq enumerates the flattened entry list, backwardIpAddrSeq its reverse *)
  Theorem ip_addr_seq_is fwd values :
    seq_is (ip_addr_seq A parse fwd values) (map Some (spec_entries A parse fwd values)).
  Proof.
    intros S y st. unfold spec_entries. revert st.
    induction values as [|v rest IH]; intros st; [reflexivity|].
    simpl ip_addr_seq. simpl flat_map. rewrite !map_app, fold_stop_app.
    rewrite (split_seq_is "," v S). rewrite fold_stop_map.
    rewrite (map_ext _ (fun raw => Some (spec_item A parse fwd raw))) by (intros; apply item_ip_spec).
    rewrite <- (map_map (spec_item A parse fwd) Some).
    destruct (fold_stop y _ st) as [st' k]. destruct k; [apply IH | reflexivity].
  Qed.

  Lemma backward_go_is fwd rvalues :
    seq_is (backward_go A parse fwd rvalues)
           (map Some (flat_map (fun v => rev (map (spec_item A parse fwd) (split_on "," v))) rvalues)).
  Proof.
    intros S y st. revert st.
    induction rvalues as [|v rest IH]; intros st; [reflexivity|].
    simpl backward_go. simpl flat_map. rewrite !map_app, fold_stop_app.
    rewrite (bsplit_seq_is "," v S). rewrite fold_stop_map.
    rewrite (map_ext _ (fun raw => Some (spec_item A parse fwd raw))) by (intros; apply item_ip_spec).
    rewrite <- (map_map (spec_item A parse fwd) Some), map_rev.
    destruct (fold_stop y _ st) as [st' k]. destruct k; [apply IH | reflexivity].
  Qed.

  Theorem backward_ip_addr_seq_is fwd values :
    seq_is (backward_ip_addr_seq A parse fwd values) (map Some (rev (spec_entries A parse fwd values))).
  Proof.
    unfold backward_ip_addr_seq. intros S y st. rewrite backward_go_is.
    unfold spec_entries. rewrite <- flat_map_rev.
    f_equal. f_equal. f_equal.
    induction values as [|v rest IH]; [reflexivity|].
    simpl. rewrite map_app, IH. reflexivity.
  Qed.

  (* compositionality of the flattened entry list in the header lines *)
  Theorem spec_entries_app fwd l1 l2 :
    spec_entries A parse fwd (l1 ++ l2) = spec_entries A parse fwd l1 ++ spec_entries A parse fwd l2.
  Proof. unfold spec_entries. rewrite flat_map_app, map_app. reflexivity. Qed.

  Theorem spec_entries_text fwd t l0 rest :
    spec_entries A parse fwd ((t ++ ","%char :: l0) :: rest) =
    spec_entries A parse fwd [t] ++ spec_entries A parse fwd (l0 :: rest).
  Proof.
    unfold spec_entries. simpl flat_map. rewrite split_on_sep_app, app_nil_r, <- app_assoc, map_app.
    reflexivity.
  Qed.
End ItemsProofs.
