(* Proofs about the strategies (Strategies.v): each resolver of the model returns
   exactly what the specification (Spec.v) designates on the flattened entry
   list, for an arbitrary non-panicking ParseIPAddr and an arbitrary range test. *)
From FoxBase Require Import Bytes.
From FoxC18 Require Import Cidr Types GoStd ParseIP Spec Entries Strategies EntriesProofs.
From Coq Require Import Lia.
Open Scope N_scope.

(* ------------------------------------------------------------------ list facts *)
Lemma find_app {X} (f : X -> bool) l1 l2 :
  find f (l1 ++ l2) = match find f l1 with Some x => Some x | None => find f l2 end.
Proof.
  induction l1 as [|x l1 IH]; [reflexivity|]. simpl. destruct (f x); [reflexivity | apply IH].
Qed.

Lemma existsb_find_rev {X} (f : X -> bool) l : existsb f l = true -> find f (rev l) <> None.
Proof.
  intros H Hn. apply existsb_exists in H. destruct H as [x [Hin Hf]].
  apply in_rev in Hin. pose proof (find_none f (rev l) Hn x Hin) as Hf2. congruence.
Qed.

Lemma rev_last_cons {X} (l : list X) d : l <> [] -> rev l = last l d :: rev (removelast l).
Proof.
  intros Hne. rewrite (app_removelast_last d Hne) at 1. rewrite rev_app_distr. reflexivity.
Qed.

Lemma firstnN_firstn {X} (l : list X) : forall n, firstnN n l = firstn (N.to_nat n) l.
Proof.
  induction l as [|x r IH]; intros n; simpl.
  - rewrite firstn_nil. reflexivity.
  - destruct (0 <? n) eqn:Hn.
    + apply N.ltb_lt in Hn. replace (N.to_nat n) with (Datatypes.S (N.to_nat (N.pred n))) by lia.
      simpl. rewrite IH. reflexivity.
    + apply N.ltb_ge in Hn. replace (N.to_nat n) with O by lia. reflexivity.
Qed.

Lemma nthN_nth_error {X} (l : list X) : forall n, nthN l n = nth_error l (N.to_nat n).
Proof.
  induction l as [|x r IH]; intros n; simpl.
  - destruct (N.to_nat n); reflexivity.
  - destruct (n =? 0) eqn:Hn.
    + apply N.eqb_eq in Hn. subst n. reflexivity.
    + apply N.eqb_neq in Hn. replace (N.to_nat n) with (Datatypes.S (N.to_nat (N.pred n))) by lia.
      simpl. apply IH.
Qed.

Lemma lengthN_length {X} (l : list X) : lengthN l = N.of_nat (List.length l).
Proof. induction l as [|x r IH]; simpl lengthN; [reflexivity|]. rewrite IH. simpl List.length. lia. Qed.

Section StrategiesProofs.
  Variable A : Type.
  Variable parse : bytes -> pres A.
  Hypothesis parse_no_panic : forall s, parse s <> PPanic.

  Notation entries := (spec_entries A parse).

  (* ---------------- the loop bodies, run over a list of (non-panicking) entries ---------------- *)
  Lemma scan_fold tr (l : list (option A)) :
    fst (fold_stop (scan_yield A tr) (map Some l) None) =
    match find (untrusted_addr A tr) l with Some (Some a) => Some (Ok a) | _ => None end.
  Proof.
    induction l as [|e l IH]; [reflexivity|].
    simpl map. simpl fold_stop. simpl find. destruct e as [a|]; unfold scan_yield; simpl untrusted_addr.
    - destruct (negb (tr a)); [reflexivity | exact IH].
    - exact IH.
  Qed.

  Lemma range_fold tr (l : list (option A)) :
    fst (fold_stop (range_yield A tr) (map Some l) None) =
    match find (fun e => negb (trusted_addr A tr e)) l with
    | Some (Some a) => Some (Ok a)
    | Some None => Some (Err [ERangeNoValid])
    | None => None
    end.
  Proof.
    induction l as [|e l IH]; [reflexivity|].
    simpl map. simpl fold_stop. simpl find. destruct e as [a|]; unfold range_yield; simpl trusted_addr.
    - destruct (tr a); simpl negb; cbv iota; [exact IH | reflexivity].
    - reflexivity.
  Qed.

  Lemma count_fold (l : list (option A)) : forall n,
    fst (fst (fold_stop (count_yield A) (map Some l) (None, n))) =
    match nth_error l (N.to_nat n) with Some e => Some (Some e) | None => None end.
  Proof.
    induction l as [|e l IH]; intros n.
    - simpl. destruct (N.to_nat n); reflexivity.
    - simpl map. simpl fold_stop. destruct (0 <? n) eqn:Hn.
      + apply N.ltb_lt in Hn. replace (N.to_nat n) with (Datatypes.S (N.to_nat (n - 1))) by lia.
        simpl nth_error. apply IH.
      + apply N.ltb_ge in Hn. replace (N.to_nat n) with O by lia. reflexivity.
  Qed.

  (* ---------------- per strategy: model = designated entry ---------------- *)

  (* leftmost-non-private: the first valid non-excluded address among the first limit entries *)
  Theorem leftmost_spec fwd values limit bl :
    leftmost_non_private A parse fwd values limit bl = spec_leftmost A bl (entries fwd values) limit.
  Proof.
    unfold leftmost_non_private, spec_leftmost. rewrite firstnN_firstn.
    destruct values as [|v rest]; [destruct (N.to_nat limit); reflexivity|].
    rewrite (take_is _ _ limit (ip_addr_seq_is A parse parse_no_panic fwd (v :: rest)) (loop_state A)).
    rewrite firstn_map. unfold finish.
    rewrite scan_fold.
    destruct (find _ _) as [[a|]|]; reflexivity.
  Qed.

  (* rightmost-non-private: the rightmost valid address outside the trusted ranges *)
  Theorem rightmost_non_private_spec fwd values tr :
    rightmost_non_private A parse fwd values tr = spec_rightmost_non_private A tr (entries fwd values).
  Proof.
    unfold rightmost_non_private, spec_rightmost_non_private. destruct values as [|v rest]; [reflexivity|].
    rewrite (backward_ip_addr_seq_is A parse parse_no_panic fwd (v :: rest) (loop_state A)).
    unfold finish.
    rewrite scan_fold.
    destruct (find _ _) as [[a|]|]; reflexivity.
  Qed.

  (* rightmost-trusted-count: the n-th entry from the right *)
  Theorem trusted_count_nth fwd values n :
    0 < n ->
    rightmost_trusted_count A parse fwd values n =
    match nth_error (rev (entries fwd values)) (N.to_nat n - 1) with
    | Some (Some a) => Ok a
    | Some None => Err [ECountInvalid]
    | None => Err [ECountFewer]
    end.
  Proof.
    intros Hn. unfold rightmost_trusted_count.
    assert (Hz : (n =? 0) = false) by (apply N.eqb_neq; lia). rewrite Hz.
    rewrite (backward_ip_addr_seq_is A parse parse_no_panic fwd values).
    pose proof (count_fold (rev (entries fwd values)) (n - 1)) as Hc.
    destruct (fold_stop (count_yield A) _ _) as [[res m] k]. simpl in Hc. subst res.
    replace (N.to_nat (n - 1)) with (N.to_nat n - 1)%nat by lia.
    destruct (nth_error _ _) as [[a|]|]; reflexivity.
  Qed.

  Corollary trusted_count_spec fwd values n :
    0 < n -> rightmost_trusted_count A parse fwd values n = spec_trusted_count A (entries fwd values) n.
  Proof.
    intros Hn. rewrite trusted_count_nth by exact Hn. unfold spec_trusted_count.
    assert (Hz : (n =? 0) = false) by (apply N.eqb_neq; lia). rewrite Hz. rewrite nthN_nth_error.
    replace (N.to_nat (N.pred n)) with (N.to_nat n - 1)%nat by lia. reflexivity.
  Qed.

  Corollary leftmost_first_limit fwd values limit bl :
    leftmost_non_private A parse fwd values limit bl =
    match find (untrusted_addr A bl) (firstn (N.to_nat limit) (entries fwd values)) with
    | Some (Some a) => Ok a
    | _ => Err [ELeftmost]
    end.
  Proof. rewrite leftmost_spec. unfold spec_leftmost. rewrite firstnN_firstn. reflexivity. Qed.

  (* rightmost-trusted-range: the first entry from the right that is not a trusted
     address; an error when it is not an address at all *)
  Theorem trusted_range_spec fwd values tr :
    rightmost_trusted_range A parse fwd values (Some tr) = spec_trusted_range A tr (entries fwd values).
  Proof.
    unfold rightmost_trusted_range, spec_trusted_range.
    rewrite (backward_ip_addr_seq_is A parse parse_no_panic fwd values (loop_state A)).
    unfold finish.
    rewrite range_fold.
    destruct (find _ _) as [[a|]|]; reflexivity.
  Qed.

  Theorem trusted_range_resolver_error fwd values :
    rightmost_trusted_range A parse fwd values None = Err [ERangeResolver].
  Proof. reflexivity. Qed.

  (* single-header: the last header instance, and nothing else *)
  Theorem single_header_last matches :
    single_ip_header A parse matches = spec_single A parse matches.
  Proof.
    unfold single_ip_header, spec_single, last_header.
    destruct matches as [|m ms]; [reflexivity|].
    rewrite (nth_error_last (m :: ms) []) by discriminate.
    rewrite (rev_last_cons (m :: ms) []) by discriminate.
    destruct (last (m :: ms) []) as [|c l]; [reflexivity|].
    destruct (parse (c :: l)); reflexivity.
  Qed.

  Theorem remote_addr_spec remote : remote_addr A parse remote = spec_remote A parse remote.
  Proof. reflexivity. Qed.

  (* ---------------- every strategy returns an address or an error ---------------- *)
  Definition ok_or_err (r : result A) : Prop := match r with Ok _ | Err _ => True | _ => False end.

  Theorem leftmost_ok_or_err fwd values limit bl : ok_or_err (leftmost_non_private A parse fwd values limit bl).
  Proof. rewrite leftmost_spec. unfold spec_leftmost. destruct (find _ _) as [[a|]|]; exact I. Qed.

  Theorem rightmost_non_private_ok_or_err fwd values tr : ok_or_err (rightmost_non_private A parse fwd values tr).
  Proof.
    rewrite rightmost_non_private_spec. unfold spec_rightmost_non_private.
    destruct (find _ _) as [[a|]|]; exact I.
  Qed.

  Theorem trusted_count_ok_or_err fwd values n : ok_or_err (rightmost_trusted_count A parse fwd values n).
  Proof.
    unfold rightmost_trusted_count.
    rewrite (backward_ip_addr_seq_is A parse parse_no_panic fwd values).
    set (m := if n =? 0 then 2 ^ 64 - 1 else n - 1).
    pose proof (count_fold (rev (entries fwd values)) m) as Hc.
    destruct (fold_stop (count_yield A) _ _) as [[res m'] k]. simpl in Hc. subst res.
    destruct (nth_error _ _) as [[a|]|]; exact I.
  Qed.

  Theorem trusted_range_ok_or_err fwd values tr : ok_or_err (rightmost_trusted_range A parse fwd values tr).
  Proof.
    destruct tr as [tr|]; [|exact I].
    rewrite trusted_range_spec. unfold spec_trusted_range. destruct (find _ _) as [[a|]|]; exact I.
  Qed.

  Theorem single_ok_or_err matches : ok_or_err (single_ip_header A parse matches).
  Proof.
    rewrite single_header_last. unfold spec_single. destruct (rev matches) as [|l ?]; [exact I|].
    destruct l; [exact I|]. destruct (parse (a :: l)) eqn:Hp; try exact I.
    exfalso. exact (parse_no_panic _ Hp).
  Qed.

  Theorem remote_ok_or_err remote : ok_or_err (remote_addr A parse remote).
  Proof.
    unfold remote_addr. destruct (parse remote) eqn:Hp; try exact I.
    exfalso. exact (parse_no_panic _ Hp).
  Qed.

  Lemma chain_go_ok_or_err subs : forall errs,
    Forall (fun s : unit -> result A => ok_or_err (s tt)) subs -> ok_or_err (chain_go A subs errs).
  Proof.
    induction subs as [|s rest IH]; intros errs Hall.
    - simpl. destruct errs; exact I.
    - inversion Hall as [|? ? Hs Hrest]; subst. simpl.
      destruct (s tt) as [a|e| |] eqn:Hr; try exact I; try contradiction. apply IH. exact Hrest.
  Qed.

  (* ---------------- chain ---------------- *)
  Lemma chain_go_some subs : forall es,
    chain_go A subs (Some es) =
    match spec_chain_members A (map (fun s => s tt) subs) with
    | Err e => Err (es ++ e)
    | r => r
    end.
  Proof.
    induction subs as [|s rest IH]; intros es.
    - simpl. rewrite app_nil_r. reflexivity.
    - simpl chain_go. simpl map. simpl spec_chain_members. destruct (s tt) as [a|e| |]; try reflexivity.
      rewrite IH. destruct (spec_chain_members A _) as [a'|e'| |]; try reflexivity.
      rewrite app_assoc. reflexivity.
  Qed.

  (* a chain returns the result of its first member that does not fail, or the joined
     errors of all members, or - without members - its own error *)
  Theorem chain_spec subs : chain A subs = spec_chain A (map (fun s => s tt) subs).
  Proof.
    destruct subs as [|s rest]; [reflexivity|].
    unfold chain, spec_chain. simpl chain_go. simpl map. simpl spec_chain_members.
    destruct (s tt) as [a|e| |]; try reflexivity.
    rewrite chain_go_some. reflexivity.
  Qed.

  Lemma chain_go_first_success pre : forall (s : unit -> result A) post a errs,
    Forall (fun p : unit -> result A => exists e, p tt = Err e) pre ->
    s tt = Ok a -> chain_go A (pre ++ s :: post) errs = Ok a.
  Proof.
    induction pre as [|p pre IH]; intros s post a errs Hpre Hs.
    - simpl. rewrite Hs. reflexivity.
    - inversion Hpre as [|? ? [e He] Hrest]; subst. simpl. rewrite He. apply IH; assumption.
  Qed.

  Theorem chain_first_success pre (s : unit -> result A) post a :
    Forall (fun p : unit -> result A => exists e, p tt = Err e) pre ->
    s tt = Ok a -> chain A (pre ++ s :: post) = Ok a.
  Proof. intros. unfold chain. apply chain_go_first_success; assumption. Qed.

  Lemma chain_go_all_errors subs : forall es,
    Forall (fun p : unit -> result A => exists e, p tt = Err e) subs ->
    exists es', chain_go A subs (Some es) = Err es'.
  Proof.
    induction subs as [|p subs IH]; intros es Hall.
    - exists es. reflexivity.
    - inversion Hall as [|? ? [e He] Hrest]; subst. simpl. rewrite He. apply IH. exact Hrest.
  Qed.

  Theorem chain_all_errors subs :
    Forall (fun p : unit -> result A => exists e, p tt = Err e) subs ->
    exists es, chain A subs = Err es.
  Proof.
    destruct subs as [|p subs]; [intros _; exists [EChainEmpty]; reflexivity|]. intros Hall.
    inversion Hall as [|? ? [e He] Hrest]; subst. unfold chain. simpl. rewrite He.
    apply chain_go_all_errors. exact Hrest.
  Qed.

  (* the empty chain reports an error of its own *)
  Theorem chain_empty : chain A [] = Err [EChainEmpty].
  Proof. reflexivity. Qed.

  (* ---------------- anti-spoofing, on the entry list ---------------- *)
  Lemma count_prefix_independent (pre suf : list (option A)) n :
    designated_within_count A suf n = true ->
    spec_trusted_count A (pre ++ suf) n = spec_trusted_count A suf n.
  Proof.
    unfold designated_within_count, spec_trusted_count. intros H.
    apply andb_true_iff in H. destruct H as [Hz Hle].
    apply negb_true_iff in Hz. rewrite Hz. apply N.leb_le in Hle. rewrite lengthN_length in Hle.
    apply N.eqb_neq in Hz. rewrite !nthN_nth_error.
    rewrite rev_app_distr, nth_error_app1 by (rewrite rev_length; lia). reflexivity.
  Qed.

  Lemma non_private_prefix_independent tr (pre suf : list (option A)) :
    designated_within_non_private A tr suf = true ->
    spec_rightmost_non_private A tr (pre ++ suf) = spec_rightmost_non_private A tr suf.
  Proof.
    unfold designated_within_non_private, spec_rightmost_non_private. intros H.
    rewrite rev_app_distr, find_app. pose proof (existsb_find_rev _ _ H) as Hf.
    destruct (find (untrusted_addr A tr) (rev suf)); [reflexivity | congruence].
  Qed.

  Lemma range_prefix_independent tr (pre suf : list (option A)) :
    designated_within_range A tr suf = true ->
    spec_trusted_range A tr (pre ++ suf) = spec_trusted_range A tr suf.
  Proof.
    unfold designated_within_range, spec_trusted_range. intros H.
    rewrite rev_app_distr, find_app. pose proof (existsb_find_rev _ _ H) as Hf.
    destruct (find _ (rev suf)); [reflexivity | congruence].
  Qed.

  (* the entries of an attacked header: attacker entries, then the genuine ones untouched *)
  Lemma entries_attack fwd extra text lines :
    lines <> [] \/ text = None ->
    exists pre, entries fwd (attack_lines extra text lines) = pre ++ entries fwd lines.
  Proof.
    intros H. unfold attack_lines. destruct text as [t|].
    - destruct lines as [|l0 rest]; [destruct H; congruence|].
      exists (entries fwd extra ++ entries fwd [t]).
      rewrite spec_entries_app, spec_entries_text, app_assoc. reflexivity.
    - exists (entries fwd extra). apply spec_entries_app.
  Qed.

  Lemma designated_nonempty_count fwd lines n :
    designated_within_count A (entries fwd lines) n = true -> lines <> [].
  Proof.
    intros H Hl. subst lines. unfold designated_within_count in H. simpl in H.
    apply andb_true_iff in H. destruct H as [Hz Hle]. apply negb_true_iff, N.eqb_neq in Hz.
    apply N.leb_le in Hle. lia.
  Qed.

  (* ---------------- anti-spoofing, on the header lines ---------------- *)
  Theorem trusted_count_prefix_independent fwd extra text lines n :
    designated_within_count A (entries fwd lines) n = true ->
    rightmost_trusted_count A parse fwd (attack_lines extra text lines) n =
    rightmost_trusted_count A parse fwd lines n.
  Proof.
    intros H. pose proof (designated_nonempty_count _ _ _ H) as Hne.
    assert (Hn : 0 < n).
    { unfold designated_within_count in H. apply andb_true_iff in H. destruct H as [Hz _].
      apply negb_true_iff, N.eqb_neq in Hz. lia. }
    rewrite !trusted_count_spec by exact Hn.
    destruct (entries_attack fwd extra text lines (or_introl Hne)) as [pre Hpre]. rewrite Hpre.
    apply count_prefix_independent. exact H.
  Qed.

  Theorem non_private_prefix_independent_lines fwd extra text lines tr :
    designated_within_non_private A tr (entries fwd lines) = true ->
    rightmost_non_private A parse fwd (attack_lines extra text lines) tr =
    rightmost_non_private A parse fwd lines tr.
  Proof.
    intros H.
    assert (Hne : lines <> []) by (intros Hl; subst lines; discriminate H).
    rewrite !rightmost_non_private_spec.
    destruct (entries_attack fwd extra text lines (or_introl Hne)) as [pre Hpre]. rewrite Hpre.
    apply non_private_prefix_independent. exact H.
  Qed.

  Theorem trusted_range_prefix_independent fwd extra text lines tr :
    designated_within_range A tr (entries fwd lines) = true ->
    rightmost_trusted_range A parse fwd (attack_lines extra text lines) (Some tr) =
    rightmost_trusted_range A parse fwd lines (Some tr).
  Proof.
    intros H.
    assert (Hne : lines <> []) by (intros Hl; subst lines; discriminate H).
    rewrite !trusted_range_spec.
    destruct (entries_attack fwd extra text lines (or_introl Hne)) as [pre Hpre]. rewrite Hpre.
    apply range_prefix_independent. exact H.
  Qed.
End StrategiesProofs.
